package main

// Symbolic execution of statements; loops are cut at their invariants.

import (
	"sync"
	"fmt"
	"go/ast"
	"go/token"
	"go/types"
	"strings"
)

func (c *FCtx) takeSide() []Flow {
	s := c.side
	c.side = nil
	return s
}

func (c *FCtx) execBlock(st *State, stmts []ast.Stmt) []Flow {
	cur := []*State{st}
	var out []Flow
	var done []*State
	for i, s := range stmts {
		var next []*State
		for _, cs := range cur {
			if cs.dead {
				continue
			}
			flows := c.execStmt(cs, s, stmts[i+1:])
			for _, f := range flows {
				if f.kind == fNormal {
					c.afterAsserts(f.st, s)
					next = append(next, f.st)
				} else if f.kind == fBlockDone {
					done = append(done, f.st)
				} else {
					out = append(out, f)
				}
			}
		}
		cur = next
		if len(cur) == 0 {
			break
		}
		if len(cur) > 64 {
			fail("path explosion (%d live paths) in %s", len(cur), c.curFunc)
		}
	}
	for _, cs := range cur {
		out = append(out, Flow{st: cs, kind: fNormal})
	}
	for _, cs := range done {
		out = append(out, Flow{st: cs, kind: fNormal})
	}
	return out
}

func (c *FCtx) declare(st *State, obj types.Object, v Val) {
	id := c.newCell(st, v)
	st.vars[obj] = id
	st.written[id] = true
}

func (c *FCtx) assignTo(st *State, lhs ast.Expr, v Val) {
	if id, ok := lhs.(*ast.Ident); ok && id.Name == "_" {
		return
	}
	if ix, ok := lhs.(*ast.IndexExpr); ok {
		if _, isMap := c.info.TypeOf(ix.X).Underlying().(*types.Map); isMap {
			c.mapAssign(st, ix, v)
			return
		}
	}
	p, ok := c.resolvePlace(st, lhs)
	if !ok {
		fail("assignment to non-place %s", c.exprStr(lhs))
	}
	v = c.coerceNil(st, v, p.Typ)
	c.writePlace(st, p, c.fitVal(st, v, p.Typ))
}

// fitVal adjusts the static type tag of a value to the destination type (no semantic change).
func (c *FCtx) fitVal(st *State, v Val, t types.Type) Val {
	switch x := v.(type) {
	case SV:
		if x.Typ == nil || !types.Identical(x.Typ, t) {
			return SV{x.T, t}
		}
	}
	return v
}

func (c *FCtx) execStmt(st *State, s ast.Stmt, rest []ast.Stmt) (flows []Flow) {
	defer func() {
		// flows split off inside expressions (callee panics) are appended
		flows = append(flows, c.takeSide()...)
	}()
	switch x := s.(type) {
	case *ast.EmptyStmt:
		return []Flow{{st: st}}
	case *ast.ExprStmt:
		if call, ok := x.X.(*ast.CallExpr); ok {
			if id, ok := call.Fun.(*ast.Ident); ok && id.Name == "panic" {
				if _, isBuiltin := c.info.ObjectOf(id).(*types.Builtin); isBuiltin {
					return []Flow{{st: st, kind: fPanic, msg: c.panicMsg(st, call.Args[0]), pos: c.eng.pos(x)}}
				}
			}
			c.evalCall(st, call)
			if st.dead {
				return nil
			}
			return []Flow{{st: st}}
		}
		fail("expression statement %s", c.exprStr(x.X))
	case *ast.DeclStmt:
		gd := x.Decl.(*ast.GenDecl)
		if gd.Tok == token.CONST || gd.Tok == token.TYPE {
			return []Flow{{st: st}}
		}
		for _, sp := range gd.Specs {
			vs := sp.(*ast.ValueSpec)
			if len(vs.Values) == 0 {
				for _, n := range vs.Names {
					obj := c.info.Defs[n]
					c.declare(st, obj, c.zeroVal(st, obj.Type()))
				}
				continue
			}
			if len(vs.Values) == len(vs.Names) {
				for i, n := range vs.Names {
					v := c.eval(st, vs.Values[i])
					if n.Name == "_" {
						continue
					}
					obj := c.info.Defs[n]
					c.declare(st, obj, c.fitVal(st, c.coerceNil(st, c.copyVal(v), obj.Type()), obj.Type()))
				}
				continue
			}
			fail("var declaration with tuple initialiser")
		}
		return []Flow{{st: st}}
	case *ast.AssignStmt:
		return c.execAssign(st, x)
	case *ast.IncDecStmt:
		p, ok := c.resolvePlace(st, x.X)
		if !ok {
			fail("inc/dec of non-place")
		}
		v := c.readPlace(st, p).(SV)
		op := token.ADD
		if x.Tok == token.DEC {
			op = token.SUB
		}
		// the place is re-resolved only once (Go evaluates the operand once)
		c.writePlace(st, p, SV{c.arith(st, op, v.T, Num(1), p.Typ, x, nil, nil), p.Typ})
		return []Flow{{st: st}}
	case *ast.BlockStmt:
		return c.execBlock(st, x.List)
	case *ast.IfStmt:
		return c.execIf(st, x)
	case *ast.ForStmt:
		return c.execFor(st, x, "")
	case *ast.RangeStmt:
		return c.execRange(st, x, "")
	case *ast.SwitchStmt:
		return c.execSwitch(st, x)
	case *ast.ReturnStmt:
		var res []Val
		if len(x.Results) == 0 {
			for _, r := range c.results {
				if r != nil {
					res = append(res, c.readPlace(st, Place{Cell: st.vars[r], Typ: r.Type()}))
				}
			}
		} else if len(x.Results) == 1 && len(c.resTypes()) > 1 {
			res = c.evalCall(st, x.Results[0].(*ast.CallExpr))
		} else {
			rts := c.resTypes()
			for i, r := range x.Results {
				v := c.eval(st, r)
				if i < len(rts) {
					v = c.coerceNil(st, v, rts[i])
					v = c.fitVal(st, v, rts[i])
				}
				res = append(res, c.copyVal(v))
			}
		}
		if st.dead {
			return nil
		}
		rp := x.Pos()
		if c.inlineDepth > 0 {
			rp = token.NoPos
		}
		var rnode ast.Node
		if c.inlineDepth == 0 {
			rnode = x
		}
		return []Flow{{st: st, kind: fReturn, node: rnode, results: res, pos: c.eng.pos(x), retPos: rp}}
	case *ast.BranchStmt:
		switch x.Tok {
		case token.BREAK:
			l := ""
			if x.Label != nil {
				l = x.Label.Name
			}
			return []Flow{{st: st, kind: fBreak, label: l}}
		case token.CONTINUE:
			l := ""
			if x.Label != nil {
				l = x.Label.Name
			}
			return []Flow{{st: st, kind: fContinue, label: l}}
		case token.GOTO:
			return []Flow{{st: st, kind: fGoto, node: x, label: x.Label.Name, pos: c.eng.pos(x)}}
		}
		fail("branch statement %s", x.Tok)
	case *ast.LabeledStmt:
		switch inner := x.Stmt.(type) {
		case *ast.ForStmt:
			return c.execFor(st, inner, x.Label.Name)
		case *ast.RangeStmt:
			return c.execRange(st, inner, x.Label.Name)
		}
		// a label that is the target of backward gotos: loop head over the rest of the block
		return c.execLabelLoop(st, x, rest)
	case *ast.GoStmt, *ast.SelectStmt, *ast.SendStmt, *ast.DeferStmt:
		fail("statement form %T is outside the supported subset", s)
	}
	fail("statement form %T", s)
	return nil
}

func (c *FCtx) resTypes() []types.Type {
	sig := c.curSig
	var out []types.Type
	for i := 0; i < sig.Results().Len(); i++ {
		out = append(out, sig.Results().At(i).Type())
	}
	return out
}

// copyVal: Go assignment copies arrays and structs by value; our values are immutable terms so
// sharing is safe.
func (c *FCtx) copyVal(v Val) Val { return v }

func (c *FCtx) panicMsg(st *State, arg ast.Expr) string {
	if tv, ok := c.info.Types[arg]; ok && tv.Value != nil {
		return strings.Trim(tv.Value.ExactString(), "\"")
	}
	// fmt.Sprintf("format", ...) / fmt.Errorf(...)
	if call, ok := arg.(*ast.CallExpr); ok && len(call.Args) > 0 {
		if tv, ok := c.info.Types[call.Args[0]]; ok && tv.Value != nil {
			for _, a := range call.Args[1:] {
				c.evalForEffectsOnly(st, a)
			}
			return strings.Trim(tv.Value.ExactString(), "\"")
		}
	}
	return "<dynamic>"
}

func (c *FCtx) evalForEffectsOnly(st *State, e ast.Expr) {
	defer func() {
		if r := recover(); r != nil {
			if _, ok := r.(unsupported); !ok {
				panic(r)
			}
		}
	}()
	c.eval(st, e)
}

func (c *FCtx) execAssign(st *State, x *ast.AssignStmt) []Flow {
	define := x.Tok == token.DEFINE
	if x.Tok != token.ASSIGN && !define {
		// op-assign
		p, ok := c.resolvePlace(st, x.Lhs[0])
		if !ok {
			fail("op-assign to non-place")
		}
		l := c.readPlace(st, p).(SV)
		r := c.eval(st, x.Rhs[0]).(SV)
		var op token.Token
		switch x.Tok {
		case token.ADD_ASSIGN:
			op = token.ADD
		case token.SUB_ASSIGN:
			op = token.SUB
		case token.MUL_ASSIGN:
			op = token.MUL
		case token.QUO_ASSIGN:
			op = token.QUO
		case token.REM_ASSIGN:
			op = token.REM
		case token.AND_ASSIGN:
			op = token.AND
		case token.OR_ASSIGN:
			op = token.OR
		case token.XOR_ASSIGN:
			op = token.XOR
		case token.SHL_ASSIGN:
			op = token.SHL
		case token.SHR_ASSIGN:
			op = token.SHR
		case token.AND_NOT_ASSIGN:
			op = token.AND_NOT
		default:
			fail("assignment operator %s", x.Tok)
		}
		var res *Term
		if op == token.SHL || op == token.SHR {
			res = c.shift(st, op, l.T, r.T, p.Typ, c.info.TypeOf(x.Rhs[0]), x)
		} else {
			res = c.arith(st, op, l.T, r.T, p.Typ, x, x.Lhs[0], x.Rhs[0])
		}
		c.writePlace(st, p, SV{res, p.Typ})
		return []Flow{{st: st}}
	}
	var vals []Val
	if len(x.Rhs) == 1 && len(x.Lhs) > 1 {
		switch r := x.Rhs[0].(type) {
		case *ast.CallExpr:
			vals = c.evalCall(st, r)
		case *ast.IndexExpr:
			vals = c.evalMapIndex(st, r)
		default:
			fail("tuple assignment from %T", x.Rhs[0])
		}
		if len(vals) != len(x.Lhs) {
			fail("tuple arity mismatch")
		}
	} else {
		for _, r := range x.Rhs {
			vals = append(vals, c.copyVal(c.eval(st, r)))
		}
	}
	if st.dead {
		return nil
	}
	for i, l := range x.Lhs {
		if id, ok := l.(*ast.Ident); ok {
			if id.Name == "_" {
				continue
			}
			if define {
				if obj := c.info.Defs[id]; obj != nil {
					c.declare(st, obj, c.fitVal(st, c.coerceNil(st, vals[i], obj.Type()), obj.Type()))
					continue
				}
			}
		}
		c.assignTo(st, l, vals[i])
	}
	return []Flow{{st: st}}
}

func (c *FCtx) execIf(st *State, x *ast.IfStmt) []Flow {
	var out []Flow
	if x.Init != nil {
		fl := c.execStmt(st, x.Init, nil)
		var live *State
		for _, f := range fl {
			if f.kind == fNormal {
				live = f.st
			} else {
				out = append(out, f)
			}
		}
		if live == nil {
			return out
		}
		st = live
	}
	cond := c.eval(st, x.Cond).(SV).T
	out = append(out, c.takeSide()...)
	if st.dead {
		return out
	}
	prefix := len(st.pc)
	var thenFlows, elseFlows []Flow
	if !cond.IsFalse() || c.dry {
		ts := st.clone()
		ts.assume(cond)
		thenFlows = c.execBlock(ts, x.Body.List)
	}
	if !cond.IsTrue() || c.dry {
		es := st.clone()
		es.assume(Not(cond))
		if x.Else != nil {
			elseFlows = c.execStmt(es, x.Else, nil)
		} else {
			elseFlows = []Flow{{st: es}}
		}
	}
	var tn, en []*State
	for _, f := range thenFlows {
		if f.kind == fNormal {
			tn = append(tn, f.st)
		} else {
			out = append(out, f)
		}
	}
	for _, f := range elseFlows {
		if f.kind == fNormal {
			en = append(en, f.st)
		} else {
			out = append(out, f)
		}
	}
	if len(tn) == 1 && len(en) == 1 && !cond.IsTrue() && !cond.IsFalse() {
		if m, ok := c.merge(cond, tn[0], en[0], prefix); ok {
			out = append(out, Flow{st: m})
			return out
		}
	}
	for _, s := range tn {
		out = append(out, Flow{st: s})
	}
	for _, s := range en {
		out = append(out, Flow{st: s})
	}
	return out
}

func (c *FCtx) execSwitch(st *State, x *ast.SwitchStmt) []Flow {
	var out []Flow
	if x.Init != nil {
		fl := c.execStmt(st, x.Init, nil)
		var live *State
		for _, f := range fl {
			if f.kind == fNormal {
				live = f.st
			} else {
				out = append(out, f)
			}
		}
		if live == nil {
			return out
		}
		st = live
	}
	var tag Val
	var tagT types.Type
	if x.Tag != nil {
		tag = c.eval(st, x.Tag)
		tagT = c.info.TypeOf(x.Tag)
	}
	out = append(out, c.takeSide()...)
	cur := st
	var deflt *ast.CaseClause
	for _, cl := range x.Body.List {
		cc := cl.(*ast.CaseClause)
		if cc.List == nil {
			deflt = cc
			continue
		}
		var conds []*Term
		for _, e := range cc.List {
			v := c.eval(cur, e)
			if tag != nil {
				conds = append(conds, c.valEq(cur, tag, v, tagT, c.info.TypeOf(e)))
			} else {
				conds = append(conds, v.(SV).T)
			}
		}
		cond := Or(conds...)
		if !cond.IsFalse() || c.dry {
			ts := cur.clone()
			ts.assume(cond)
			for _, f := range c.execBlock(ts, cc.Body) {
				if f.kind == fBreak && f.label == "" {
					f.kind = fNormal
				}
				out = append(out, f)
			}
			for _, b := range cc.Body {
				if br, ok := b.(*ast.BranchStmt); ok && br.Tok == token.FALLTHROUGH {
					fail("fallthrough")
				}
			}
		}
		if cond.IsTrue() && !c.dry {
			return out
		}
		ns := cur.clone()
		ns.assume(Not(cond))
		cur = ns
	}
	if deflt != nil {
		for _, f := range c.execBlock(cur, deflt.Body) {
			if f.kind == fBreak && f.label == "" {
				f.kind = fNormal
			}
			out = append(out, f)
		}
	} else {
		out = append(out, Flow{st: cur})
	}
	return out
}

// ---- loops ------------------------------------------------------------------------------------------

type loopParts struct {
	node  ast.Node
	label string
	cond  ast.Expr   // may be nil
	post  ast.Stmt   // may be nil
	body  []ast.Stmt
	pre   func(st *State) // executed at the head of every iteration after the guard (range loops bind key/value)
	guard func(st *State) *Term // overrides cond when non-nil
	variantHint func(st *State) *Term
	rangePost func(st *State)
}

func (c *FCtx) loopSpec(n ast.Node) (*LoopSpec, int) {
	ord := c.curFI.Loops[n]
	if c.curCon == nil {
		return nil, ord
	}
	return c.curCon.Loops[loopRecorded(c.curFI, c.curCon, ord)], ord
}

// loopRecorded: the ordinal that the loop which is now the ord-th had when the contract was written.  Identity unless
// the names clause records loop fingerprints, the current loops are a permutation of the recorded ones, and they are
// not in the recorded order (loops with equal fingerprints keep their relative order; loops without a recorded twin take
// the remaining recorded ordinals in order).
var loopMapCache sync.Map // *Contract -> []int (index current ord-1 -> recorded ord)

func loopRecorded(fi *FuncInfo, con *Contract, ord int) int {
	if fi == nil || con == nil || len(con.LoopFP) == 0 || len(con.LoopFP) != len(fi.LoopFP) || ord < 1 || ord > len(fi.LoopFP) {
		return ord
	}
	if v, ok := loopMapCache.Load(con); ok {
		return v.([]int)[ord-1]
	}
	m := make([]int, len(fi.LoopFP))
	used := make([]bool, len(con.LoopFP))
	for k, fp := range fi.LoopFP {
		m[k] = 0
		for r, rfp := range con.LoopFP {
			if !used[r] && rfp == fp {
				m[k] = r + 1
				used[r] = true
				break
			}
		}
	}
	// loops whose body was edited as well: matched by what they call (the part after ':'), when that is unambiguous
	sig := func(fp string) string {
		if i := strings.Index(fp, ":"); i >= 0 {
			return fp[i+1:]
		}
		return ""
	}
	for k, fp := range fi.LoopFP {
		if m[k] != 0 || sig(fp) == "" {
			continue
		}
		cand, n := -1, 0
		for r2, rfp := range con.LoopFP {
			if !used[r2] && sig(rfp) == sig(fp) {
				cand = r2
				n++
			}
		}
		nCur := 0
		for k2, fp2 := range fi.LoopFP {
			if m[k2] == 0 && sig(fp2) == sig(fp) {
				nCur++
			}
		}
		if n == 1 && nCur == 1 {
			m[k] = cand + 1
			used[cand] = true
		}
	}
	// the rest take the recorded ordinals that are left, in order
	r := 0
	for k := range m {
		if m[k] != 0 {
			continue
		}
		for r < len(used) && used[r] {
			r++
		}
		if r < len(used) {
			m[k] = r + 1
			used[r] = true
		} else {
			m[k] = k + 1
		}
	}
	loopMapCache.Store(con, m)
	return m[ord-1]
}

func (c *FCtx) execFor(st *State, x *ast.ForStmt, label string) []Flow {
	var out []Flow
	if x.Init != nil {
		fl := c.execStmt(st, x.Init, nil)
		var live *State
		for _, f := range fl {
			if f.kind == fNormal {
				live = f.st
			} else {
				out = append(out, f)
			}
		}
		if live == nil {
			return out
		}
		st = live
	}
	lp := &loopParts{node: x, label: label, cond: x.Cond, post: x.Post, body: x.Body.List}
	return append(out, c.execLoop(st, lp)...)
}

func (c *FCtx) execRange(st *State, x *ast.RangeStmt, label string) []Flow {
	// desugar: for $i := 0; $i < len(X); $i++ { key, value := $i, X[$i]; body }
	xt := c.info.TypeOf(x.X)
	coll := c.eval(st, x.X)
	var n *Term
	var elemAt func(st *State, i *Term) Val
	var elemT types.Type
	switch u := xt.Underlying().(type) {
	case *types.Array:
		av := coll.(AV)
		n = Num(u.Len())
		elemT = u.Elem()
		elemAt = func(st *State, i *Term) Val {
			v := c.termToVal(Select(av.T, i), u.Elem())
			return v
		}
	case *types.Slice:
		lv := coll.(LV)
		n = lv.Len
		elemT = u.Elem()
		elemAt = func(st *State, i *Term) Val {
			v := c.termToVal(Select(c.memTerm(st, lv), Add(lv.Off, i)), u.Elem())
			if sv, ok := v.(SV); ok {
				st.assume(typeFacts(sv.T, sv.Typ))
			}
			return v
		}
	case *types.Pointer:
		// range over a pointer to an array: no copy, the elements are read through the pointer at every iteration
		arr, isArr := u.Elem().Underlying().(*types.Array)
		pv, isPV := coll.(PV)
		if !isArr || !isPV {
			fail("range over %s", xt)
		}
		c.oblige(st, "safety", "nil-deref range "+c.exprStr(x.X), Not(pv.IsNil), c.eng.pos(x))
		st.assume(Not(pv.IsNil))
		n = Num(arr.Len())
		elemT = arr.Elem()
		elemAt = func(st *State, i *Term) Val {
			av, ok := c.readPlace(st, Place{Cell: pv.Cell, Path: pv.Path, Typ: arr}).(AV)
			if !ok {
				fail("range over %s: pointer target is not an array value", xt)
			}
			return c.termToVal(Select(av.T, i), arr.Elem())
		}
	default:
		fail("range over %s", xt)
	}
	// hidden counter variable
	ctrObj := types.NewVar(x.Pos(), c.pkg, fmt.Sprintf("range$%d", c.curFI.Loops[x]), types.Typ[types.Int])
	c.declare(st, ctrObj, SV{Num(0), types.Typ[types.Int]})
	c.rangeCtr[x] = ctrObj
	var keyObj, valObj types.Object
	if id, ok := x.Key.(*ast.Ident); ok && id.Name != "_" {
		if x.Tok == token.DEFINE {
			keyObj = c.info.Defs[id]
			c.declare(st, keyObj, SV{Num(0), keyObj.Type()})
		} else {
			keyObj = c.info.Uses[id]
		}
	}
	if id, ok := x.Value.(*ast.Ident); ok && id.Name != "_" {
		if x.Tok == token.DEFINE {
			valObj = c.info.Defs[id]
			c.declare(st, valObj, c.zeroOrFresh(st, valObj.Type()))
		} else {
			valObj = c.info.Uses[id]
		}
	}
	_ = elemT
	// A key declared by the range statement and never assigned in the body IS the loop counter: it is not observable
	// after the loop, so `for i := range x` is executed as `for i := 0; i < len(x); i++` and an invariant written for
	// either form holds for the other.  (A body that assigns to the key keeps the hidden counter: Go iterates on its own.)
	if keyObj != nil && x.Tok == token.DEFINE && !c.assignsTo(x.Body, keyObj) {
		ctrObj = keyObj.(*types.Var)
		c.rangeCtr[x] = ctrObj
		keyObj = nil
	}
	lp := &loopParts{node: x, label: label, body: x.Body.List}
	lp.guard = func(s *State) *Term {
		i := c.readPlace(s, Place{Cell: s.vars[ctrObj]}).(SV).T
		return Lt(i, n)
	}
	lp.pre = func(s *State) {
		i := c.readPlace(s, Place{Cell: s.vars[ctrObj]}).(SV).T
		if keyObj != nil {
			c.writePlace(s, Place{Cell: s.vars[keyObj]}, SV{i, keyObj.Type()})
		}
		if valObj != nil {
			c.writePlace(s, Place{Cell: s.vars[valObj]}, elemAt(s, i))
		}
	}
	lp.post = nil
	lp.rangePost = func(s *State) {
		i := c.readPlace(s, Place{Cell: s.vars[ctrObj]}).(SV).T
		c.writePlace(s, Place{Cell: s.vars[ctrObj]}, SV{Add(i, Num(1)), types.Typ[types.Int]})
	}
	lp.variantHint = func(s *State) *Term {
		i := c.readPlace(s, Place{Cell: s.vars[ctrObj]}).(SV).T
		return Sub(n, i)
	}
	return c.execLoop(st, lp)
}

// assignsTo: the block contains an assignment to, an increment of, or an address-of the variable obj
func (c *FCtx) assignsTo(b *ast.BlockStmt, obj types.Object) bool {
	found := false
	is := func(e ast.Expr) bool {
		id, ok := e.(*ast.Ident)
		return ok && (c.info.Uses[id] == obj || c.info.Defs[id] == obj)
	}
	ast.Inspect(b, func(n ast.Node) bool {
		switch y := n.(type) {
		case *ast.AssignStmt:
			for _, l := range y.Lhs {
				if is(l) {
					found = true
				}
			}
		case *ast.IncDecStmt:
			if is(y.X) {
				found = true
			}
		case *ast.UnaryExpr:
			if y.Op == token.AND && is(y.X) {
				found = true
			}
		case *ast.RangeStmt:
			if (y.Key != nil && is(y.Key)) || (y.Value != nil && is(y.Value)) {
				found = true
			}
		case *ast.FuncLit:
			found = true // captured: be conservative
		}
		return !found
	})
	return found
}

func (c *FCtx) zeroOrFresh(st *State, t types.Type) Val {
	if isString(t) {
		// elements of []string / [N]string are abstract Str values
		return SV{Sym(c.freshName("rangeval"), "Str"), t}
	}
	return c.zeroVal(st, t)
}

func (c *FCtx) havocLike(st *State, name string, v Val) Val {
	switch x := v.(type) {
	case SV:
		if x.Typ == nil {
			return SV{Sym(c.freshName(name), x.T.S), nil}
		}
		if x.T.S != SInt && x.T.S != SBool {
			return SV{Sym(c.freshName(name), x.T.S), x.Typ}
		}
		tm := Sym(c.freshName(name), x.T.S)
		st.assume(typeFacts(tm, x.Typ))
		return SV{tm, x.Typ}
	case AV:
		tm := Sym(c.freshName(name), x.T.S)
		st.assume(c.arrayTypeInv(tm, x.Typ))
		return AV{tm, x.Typ}
	case MV:
		tm := Sym(c.freshName(name), x.T.S)
		st.assume(c.memTypeInv(tm, x.Elem))
		return MV{tm, x.Elem}
	case TV:
		fs := make([]Val, len(x.Fs))
		for i := range fs {
			fs[i] = c.havocLike(st, fmt.Sprintf("%s.%d", name, i), x.Fs[i])
		}
		return TV{fs, x.Typ}
	case LV:
		if x.Str {
			// strings are immutable values: a re-assigned string variable holds an arbitrary new string
			nv := c.freshVal(st, name, x.Typ).(LV)
			nv.Abs = Sym(c.freshName(name+"$str"), "Str")
			return nv
		}
		off := Sym(c.freshName(name+"$off"), SInt)
		ln := Sym(c.freshName(name+"$len"), SInt)
		cp := Sym(c.freshName(name+"$cap"), SInt)
		st.assume(And(Le(Num(0), off), Le(Num(0), ln), Le(ln, cp), Le(cp, NumB(maxLen))))
		var abs *Term
		if x.Str {
			abs = Sym(c.freshName(name+"$str"), "Str")
		}
		return LV{Cell: x.Cell, Off: off, Len: ln, Cap: cp, Elem: x.Elem, IsNil: Sym(c.freshName(name+"$nil"), SBool), Str: x.Str, Typ: x.Typ, Path: x.Path, Abs: abs}
	case PV:
		return x
	case FV:
		return FV{Sym(c.freshName(name+"$has"), x.Present.S), Sym(c.freshName(name+"$val"), x.Value.S), x.Typ}
	case TXV:
		return TXV{Sym(c.freshName(name+"$text"), "Str"), x.Typ}
	case XV:
		rp := Sym(c.freshName(name+"$rpos"), SInt)
		st.assume(Le(Num(0), rp))
		return XV{Kind: x.Kind, Arr: Sym(c.freshName(name+"$xarr"), x.Arr.S), Len: Sym(c.freshName(name+"$xlen"), SInt), RPos: rp, Typ: x.Typ}
	}
	fail("havoc of %T", v)
	return nil
}

// dryRun executes fn on a copy of st with obligations disabled and returns the set of
// pre-existing cells that may be written.
func (c *FCtx) dryRun(st *State, fn func(s *State) []Flow) map[int]bool {
	c.lastDryFields = map[int]map[int]bool{}
	save := c.dry
	saveSide := c.side
	c.dry = true
	c.side = nil
	s := st.clone()
	s.written = map[int]bool{}
	s.wfields = map[int]map[int]bool{}
	flows := fn(s)
	flows = append(flows, c.takeSide()...)
	c.dry = save
	c.side = saveSide
	out := map[int]bool{}
	for _, f := range flows {
		if f.kind != fNormal {
			// only what is written on a path that comes back to the loop head has to be forgotten there: a variable
			// assigned just before a `return` / `break` / panic inside the body (`status = -1; return`) keeps its value at
			// the head, and the leaving flow carries its own state
			continue
		}
		for k := range f.st.written {
			if _, existed := st.cells[k]; existed {
				out[k] = true
				if c.lastDryFields[k] == nil {
					c.lastDryFields[k] = map[int]bool{}
				}
				if m, ok := f.st.wfields[k]; ok {
					for fld := range m {
						c.lastDryFields[k][fld] = true
					}
				} else {
					c.lastDryFields[k][-1] = true
				}
			}
		}
		// slice variables may be re-sliced inside loops only over the same backing store
		for k, v := range st.cells {
			if lv, ok := v.(LV); ok && !lv.Str {
				if nv, ok := f.st.cells[k].(LV); ok && nv.Cell != lv.Cell {
					fail("slice variable re-bound to a different backing store inside a loop")
				}
			}
			if pv, ok := v.(PV); ok {
				if nv, ok := f.st.cells[k].(PV); ok && (nv.Cell != pv.Cell || !samePath(nv.Path, pv.Path)) {
					fail("pointer variable re-bound inside a loop")
				}
			}
		}
	}
	return out
}

// havocFields: like havocLike, but for a struct cell of which only some top-level fields were written, only those.
func (c *FCtx) havocFields(st *State, name string, v Val, fields map[int]bool) Val {
	tv, ok := v.(TV)
	if !ok || fields == nil || fields[-1] || len(fields) == 0 {
		return c.havocLike(st, name, v)
	}
	fs := append([]Val(nil), tv.Fs...)
	for f := range fields {
		if f >= 0 && f < len(fs) {
			fs[f] = c.havocLike(st, fmt.Sprintf("%s.%d", name, f), tv.Fs[f])
		}
	}
	return TV{fs, tv.Typ}
}

func (c *FCtx) cellName(st *State, id int) string {
	for obj, cid := range st.vars {
		if cid == id {
			return obj.Name()
		}
	}
	return fmt.Sprintf("cell%d", id)
}

func (c *FCtx) invEnv(st *State, at ast.Node) *CEnv {
	switch x := at.(type) {
	case *ast.ForStmt:
		return c.bodyEnv(st, x.Body.Lbrace+1)
	case *ast.RangeStmt:
		return c.bodyEnv(st, x.Body.Lbrace+1)
	}
	return c.bodyEnv(st, at.Pos())
}

func (c *FCtx) execLoop(st *State, lp *loopParts) []Flow {
	spec, ord := c.loopSpec(lp.node)
	iter := func(s *State) []Flow {
		// one generic iteration: guard, body, post
		var fl []Flow
		var g *Term
		if lp.guard != nil {
			g = lp.guard(s)
		} else if lp.cond != nil {
			g = c.eval(s, lp.cond).(SV).T
		} else {
			g = True()
		}
		fl = append(fl, c.takeSide()...)
		bs := s.clone()
		bs.assume(g)
		if lp.pre != nil {
			lp.pre(bs)
		}
		for _, f := range c.execBlock(bs, lp.body) {
			if f.kind == fNormal || f.kind == fContinue && (f.label == "" || f.label == lp.label) {
				ps := f.st
				if lp.post != nil {
					for _, pf := range c.execStmt(ps, lp.post, nil) {
						fl = append(fl, pf)
					}
				} else {
					if lp.rangePost != nil {
						lp.rangePost(ps)
					}
					fl = append(fl, Flow{st: ps})
				}
			} else {
				fl = append(fl, f)
			}
		}
		es := s.clone()
		es.assume(Not(g))
		fl = append(fl, Flow{st: es, kind: fBreak})
		return fl
	}
	if c.dry {
		// inside an enclosing dry run: one pass is enough to collect written cells
		var out []Flow
		for _, f := range iter(st) {
			if f.kind == fBreak && (f.label == "" || f.label == lp.label) {
				f.kind = fNormal
				f.label = ""
			}
			out = append(out, f)
		}
		return out
	}
	if c.con != nil && c.con.Unrolls != nil {
		if k, ok := c.con.Unrolls[fmt.Sprintf("%s#%d", c.curFI.Key, ord)]; ok {
			return c.unrollLoop(st, lp, iter, k, ord)
		}
	}
	if spec == nil {
		// no invariant in the contract: unroll (covers constant small trip counts, e.g. a new 4-byte compare loop);
		// that 16 iterations suffice is an obligation, so an unbounded loop without invariant still fails the check
		c.note(fmt.Sprintf("loop %d of %s has no invariant: unrolled up to 16 iterations (bound is an obligation)", ord, c.curFunc))
		return c.unrollLoop(st, lp, iter, 16, ord)
	}
	lname := fmt.Sprintf("loop[%d]", ord)
	pos := c.eng.pos(lp.node)
	if spec.Unreachable {
		c.oblige(st, "unreachable", lname+"/unreachable", False(), pos)
		return nil
	}
	if spec.DeadBody {
		// `loop N deadbody`: the loop is reached but never entered (its guard is false on arrival); proved, then the body is skipped
		var g *Term
		if lp.guard != nil {
			g = lp.guard(st)
		} else if lp.cond != nil {
			g = c.eval(st, lp.cond).(SV).T
		} else {
			g = True()
		}
		fl := c.takeSide()
		c.oblige(st, "unreachable", lname+"/body-never-entered", Not(g), pos)
		st.assume(Not(g))
		return append(fl, Flow{st: st})
	}
	// 1. invariants hold on entry
	env := c.invEnv(st, lp.node)
	for k, inv := range spec.Invs {
		if !inv.visible(c.prop) {
			continue
		}
		c.oblige(st, "inv-init", fmt.Sprintf("%s/inv[%d]/init", lname, k+1), env.evalBool(inv.E), pos)
	}
	// 2. havoc what the loop may modify
	mod := c.dryRun(st, iter)
	hs := st.clone()
	ids := sortedKeys(mod)
	for k, fr := range c.autoFrame(st, ids) {
		c.oblige(st, "inv-init", fmt.Sprintf("%s/auto-frame[%d]/init", lname, k+1), fr, pos)
	}
	dryFields := c.lastDryFields
	for _, id := range ids {
		hs.cells[id] = c.havocFields(hs, c.cellName(st, id), st.cells[id], dryFields[id])
		hs.written[id] = true
	}
	for _, fr := range c.autoFrame(hs, ids) {
		hs.assume(fr)
	}
	// 3. assume invariants
	henv := c.invEnv(hs, lp.node)
	for _, inv := range spec.Invs {
		if !inv.visible(c.prop) {
			continue
		}
		hs.assume(henv.evalBool(inv.E))
	}
	// vacuity guard: invariant + guard satisfiable is checked through the reach obligations below
	var out []Flow
	// 4. one arbitrary iteration
	var guardTerm *Term
	{
		gs := hs.clone()
		if lp.guard != nil {
			guardTerm = lp.guard(gs)
		} else if lp.cond != nil {
			guardTerm = c.eval(gs, lp.cond).(SV).T
			out = append(out, c.takeSide()...)
		} else {
			guardTerm = True()
		}
		// evaluating the guard may itself generate obligations (index in condition): keep facts
		hs = gs
	}
	// variant at loop head
	var v0 *Term
	variantOf := func(s *State) *Term {
		if spec.Decreases != nil {
			return c.invEnv(s, lp.node).evalInt(spec.Decreases.E)
		}
		if lp.variantHint != nil {
			return lp.variantHint(s)
		}
		if be, ok := lp.cond.(*ast.BinaryExpr); ok {
			l, lok := c.tryEvalQuiet(s, be.X)
			r, rok := c.tryEvalQuiet(s, be.Y)
			if lok && rok {
				switch be.Op {
				case token.LSS, token.NEQ:
					return Sub(r, l)
				case token.LEQ:
					return Add(Sub(r, l), Num(1))
				case token.GTR:
					return Sub(l, r)
				case token.GEQ:
					return Add(Sub(l, r), Num(1))
				}
			}
		}
		return nil
	}
	bs := hs.clone()
	bs.assume(guardTerm)
	if !spec.AssumeTerm {
		v0 = variantOf(bs)
		if v0 == nil {
			fail("%s of %s: no termination measure could be inferred; add `loop %d decreases <expr>`", lname, c.curFunc, ord)
		}
	} else {
		c.note(fmt.Sprintf("termination of %s %s is assumed (decreases _)", c.curFunc, lname))
	}
	if lp.pre != nil {
		lp.pre(bs)
	}
	c.oblige(bs, "reach", lname+"/body-reachable", False(), pos) // vacuity guard (ExpectSat set below)
	if n := len(c.obls); n > 0 && c.obls[n-1].Kind == "reach" {
		c.obls[n-1].ExpectSat = true
	}
	finishIter := func(ps *State) {
		for k, fr := range c.autoFrame(ps, ids) {
			c.oblige(ps, "inv-preserved", fmt.Sprintf("%s/auto-frame[%d]/preserved", lname, k+1), fr, pos)
		}
		penv := c.invEnv(ps, lp.node)
		for k, inv := range spec.Invs {
			if !inv.visible(c.prop) {
				continue
			}
			c.oblige(ps, "inv-preserved", fmt.Sprintf("%s/inv[%d]/preserved", lname, k+1), penv.evalBool(inv.E), pos)
		}
		if v0 != nil {
			v1 := variantOf(ps)
			c.oblige(ps, "termination", lname+"/variant-decreases", And(Lt(v1, v0), Ge(v0, Num(0))), pos)
		}
	}
	for _, f := range c.execBlock(bs, lp.body) {
		switch {
		case f.kind == fNormal || f.kind == fContinue && (f.label == "" || f.label == lp.label):
			ps := f.st
			if len(spec.Asserts) > 0 {
				aenv := c.invEnv(ps, lp.node)
				switch x := lp.node.(type) { // loop asserts may name locals of the body: scope at its closing brace
				case *ast.ForStmt:
					aenv = c.bodyEnv(ps, x.Body.Rbrace)
				case *ast.RangeStmt:
					aenv = c.bodyEnv(ps, x.Body.Rbrace)
				}
				var idxLog []*Term
				aenv.idxLog = &idxLog
				done := map[int]*Term{}
				for k, as := range spec.Asserts {
					if !as.visible(c.prop) {
						continue
					}
					t := aenv.evalBool(as.E)
					done[k+1] = t
					if len(as.From) > 0 && !c.dry {
						// isolated cut: only the named earlier asserts (plus axiom instances about terms that occur) are hypotheses
						var hyps []*Term
						for _, f := range as.From {
							if h, ok := done[f]; ok {
								hyps = append(hyps, h)
							}
						}
						if as.FromAxioms {
							for _, h := range ps.pc {
								if _, tagged := aboutTerm[h]; tagged {
									hyps = append(hyps, h)
								}
							}
						}
						goal := t
						if !as.FromAxioms {
							// generalise: array elements that evaluated to compound terms become opaque constants
							hyps, goal = c.abstractTerms(hyps, goal, idxLog)
						}
						sub := &State{pc: hyps}
						c.oblige(sub, "assert", fmt.Sprintf("%s/assert[%d]", lname, k+1), goal, pos)
					} else {
						c.oblige(ps, "assert", fmt.Sprintf("%s/assert[%d]", lname, k+1), t, pos)
					}
					ps.assume(t)
				}
			}
			if lp.post != nil {
				for _, pf := range c.execStmt(ps, lp.post, nil) {
					if pf.kind == fNormal {
						finishIter(pf.st)
					} else {
						out = append(out, pf)
					}
				}
			} else {
				if lp.rangePost != nil {
					lp.rangePost(ps)
				}
				finishIter(ps)
			}
		case f.kind == fBreak && (f.label == "" || f.label == lp.label):
			out = append(out, Flow{st: f.st})
		default:
			out = append(out, f)
		}
	}
	// 5. exit path: invariant and negated guard
	if !guardTerm.IsTrue() {
		es := hs.clone()
		es.assume(Not(guardTerm))
		out = append(out, Flow{st: es})
	}
	return out
}

func (c *FCtx) tryEvalQuiet(st *State, e ast.Expr) (t *Term, ok bool) {
	defer func() {
		if r := recover(); r != nil {
			if _, isU := r.(unsupported); !isU {
				panic(r)
			}
			ok = false
		}
	}()
	save := c.dry
	c.dry = true
	s := st.clone()
	v := c.eval(s, e)
	c.dry = save
	sv, isS := v.(SV)
	if !isS || sv.T.S != SInt {
		return nil, false
	}
	return sv.T, true
}

// execLabelLoop handles `L: stmt; ...; goto L` (cryptoSignSignature's rejection loop): the label is a
// loop head cut at the invariants of "loop 0" of the contract; the loop body is the rest of the block.
func (c *FCtx) execLabelLoop(st *State, x *ast.LabeledStmt, rest []ast.Stmt) []Flow {
	body := append([]ast.Stmt{x.Stmt}, rest...)
	label := x.Label.Name
	run := func(s *State) []Flow { return c.execBlock(s, body) }
	if c.dry {
		var out []Flow
		for _, f := range run(st) {
			if f.kind == fGoto && f.label == label {
				f.kind = fBlockDone
			}
			out = append(out, f)
		}
		return c.skipRest(out)
	}
	var spec *LoopSpec
	if c.curCon != nil {
		spec = c.curCon.Loops[0]
	}
	if spec == nil {
		fail("label %s of %s is a loop head (goto target) and needs `loop 0 invariant` clauses", label, c.curFunc)
	}
	pos := c.eng.pos(x)
	env := c.invEnv(st, x)
	for k, inv := range spec.Invs {
		if inv.visible(c.prop) {
			c.oblige(st, "inv-init", fmt.Sprintf("loop[0:%s]/inv[%d]/init", label, k+1), env.evalBool(inv.E), pos)
		}
	}
	mod := c.dryRun(st, func(s *State) []Flow {
		var out []Flow
		for _, f := range run(s) {
			if f.kind == fGoto && f.label == label {
				f.kind = fNormal // the back edge of a goto loop: what it wrote must be forgotten at the head
			}
			out = append(out, f)
		}
		return out
	})
	hs := st.clone()
	dryFields := c.lastDryFields
	for _, id := range sortedKeys(mod) {
		hs.cells[id] = c.havocFields(hs, c.cellName(st, id), st.cells[id], dryFields[id])
		hs.written[id] = true
	}
	henv := c.invEnv(hs, x)
	for _, inv := range spec.Invs {
		if inv.visible(c.prop) {
			hs.assume(henv.evalBool(inv.E))
		}
	}
	if !spec.AssumeTerm {
		fail("goto loop %s of %s: termination must be declared `loop 0 decreases _` (rejection sampling)", label, c.curFunc)
	}
	c.note(fmt.Sprintf("termination of %s goto-loop %s is assumed (decreases _)", c.curFunc, label))
	var out []Flow
	for _, f := range run(hs) {
		if f.kind == fGoto && f.label == label {
			// `goto <label> k assert E`: the k-th goto statement (source order) is taken only when E holds
			if bs, ok := f.node.(*ast.BranchStmt); ok && c.fi != nil {
				ord := c.fi.GotoOrd[bs]
				for k, cl := range c.curCon.Gotos[fmt.Sprintf("%s#%d", label, ord)] {
					if !cl.visible(c.prop) {
						continue
					}
					genv := c.bodyEnv(f.st, bs.Pos())
					c.oblige(f.st, "assert", fmt.Sprintf("goto[%s#%d]/assert[%d] %s", label, ord, k+1, cl.Src), genv.evalBool(cl.E), f.pos)
				}
			}
			penv := c.invEnv(f.st, x)
			for k, inv := range spec.Invs {
				if inv.visible(c.prop) {
					c.oblige(f.st, "inv-preserved", fmt.Sprintf("loop[0:%s]/inv[%d]/preserved", label, k+1), penv.evalBool(inv.E), f.pos)
				}
			}
			continue
		}
		out = append(out, f)
	}
	return c.skipRest(out)
}

// skipRest marks flows so that the enclosing execBlock does not run the rest of the block again
// (execLabelLoop already executed it): normal flows become "block done" flows.
func (c *FCtx) skipRest(fl []Flow) []Flow {
	for i := range fl {
		if fl[i].kind == fNormal {
			fl[i].kind = fBlockDone
		}
	}
	return fl
}

func sortedKeys(m map[int]bool) []int {
	var ks []int
	for k := range m {
		ks = append(ks, k)
	}
	for i := 1; i < len(ks); i++ {
		for j := i; j > 0 && ks[j] < ks[j-1]; j-- {
			ks[j], ks[j-1] = ks[j-1], ks[j]
		}
	}
	return ks
}

// abstractTerms replaces every occurrence of the candidate compound terms by fresh constants (in all
// hypotheses and the goal alike).  Proving the generalised VC proves the original one.
func (c *FCtx) abstractTerms(hyps []*Term, goal *Term, cands []*Term) ([]*Term, *Term) {
	if len(cands) == 0 {
		return hyps, goal
	}
	byStr := map[string]*Term{}
	for _, t := range cands {
		k := t.String()
		if _, ok := byStr[k]; !ok {
			byStr[k] = Sym(c.freshName("abs"), t.S)
		}
	}
	memo := map[*Term]*Term{}
	var walk func(t *Term) *Term
	walk = func(t *Term) *Term {
		if r, ok := memo[t]; ok {
			return r
		}
		if len(t.Args) == 0 {
			return t
		}
		if r, ok := byStr[t.String()]; ok {
			memo[t] = r
			return r
		}
		args := make([]*Term, len(t.Args))
		changed := false
		for i, a := range t.Args {
			args[i] = walk(a)
			if args[i] != a {
				changed = true
			}
		}
		r := t
		if changed {
			r = &Term{Op: t.Op, S: t.S, Args: args, Bound: t.Bound, Pat: t.Pat, Alts: t.Alts, Num: t.Num}
		}
		memo[t] = r
		return r
	}
	out := make([]*Term, len(hyps))
	for i, h := range hyps {
		out[i] = walk(h)
	}
	return out, walk(goal)
}

// unrollLoop executes at most k iterations explicitly (lemma functions); that k suffices is an obligation.
func (c *FCtx) unrollLoop(st *State, lp *loopParts, iter func(s *State) []Flow, k int, ord int) []Flow {
	var out []Flow
	cur := []*State{st}
	for it := 0; it <= k; it++ {
		var next []*State
		for _, s := range cur {
			for _, f := range iter(s) {
				switch {
				case f.kind == fNormal:
					next = append(next, f.st)
				case f.kind == fBreak && (f.label == "" || f.label == lp.label):
					out = append(out, Flow{st: f.st})
				default:
					out = append(out, f)
				}
			}
		}
		cur = next
		if it == k {
			for _, s := range cur {
				c.oblige(s, "unroll", fmt.Sprintf("loop[%d]/unroll-bound %d suffices", ord, k), False(), c.eng.pos(lp.node))
			}
		}
	}
	return out
}

// afterAsserts: `after pkg.F k assert E` clauses anchored at statement s: proved in the state after s, then assumed.
func (c *FCtx) afterAsserts(st *State, s ast.Stmt) {
	if c.fi != nil && c.curFI == c.fi && len(c.ghosts) > 0 {
		s0 := s
		if ls, ok := s0.(*ast.LabeledStmt); ok {
			s0 = ls.Stmt
		}
		for _, ak := range c.fi.Anchors[s0] {
			if g, ok := c.ghosts[ak]; ok {
				id := st.vars[g]
				if old, ok := st.cells[id].(SV); ok {
					st.cells[id] = intSV(Add(old.T, Num(1)))
				} else {
					st.cells[id] = intSV(Num(1))
				}
				st.written[id] = true
			}
		}
	}
	if c.curCon == nil || len(c.curCon.Afters) == 0 || c.fi == nil {
		return
	}
	if ls, ok := s.(*ast.LabeledStmt); ok {
		s = ls.Stmt
	}
	for _, ak := range c.fi.Anchors[s] {
		done := map[int]*Term{}
		for k, cl := range c.curCon.Afters[ak] {
			if !cl.visible(c.prop) {
				continue
			}
			env := c.bodyEnv(st, s.End())
			t := env.evalBool(cl.E)
			done[k+1] = t
			if !c.dry {
				name := fmt.Sprintf("after[%s]/assert[%d] %s", ak, k+1, cl.Src)
				if len(cl.From) > 0 {
					// isolated cut: only the listed earlier assertions of this anchor are hypotheses (dropping hypotheses is sound)
					var hyps []*Term
					for _, f := range cl.From {
						if h, ok := done[f]; ok {
							hyps = append(hyps, h)
						}
					}
					// `use`d lemmas stay available (the relevance filter drops those about other functions)
					lemmaHypMu.Lock()
					for _, h := range st.pc {
						if lemmaHyp[h] {
							hyps = append(hyps, h)
						}
					}
					lemmaHypMu.Unlock()
					c.oblige(&State{pc: hyps}, "assert", name, t, c.eng.pos(s))
				} else {
					c.oblige(st, "assert", name, t, c.eng.pos(s))
				}
			}
			st.assume(t)
		}
	}
}
