package main

// Calls: conversions, built-ins, contract-based (modular) calls, inlining.

import (
	"strconv"
	"fmt"
	"go/ast"
	"go/types"
	"strings"
	"sync"
)

func (c *FCtx) calleeOf(call *ast.CallExpr) (*types.Func, ast.Expr) {
	switch f := call.Fun.(type) {
	case *ast.Ident:
		if fn, ok := c.info.Uses[f].(*types.Func); ok {
			return fn, nil
		}
	case *ast.SelectorExpr:
		if fn, ok := c.info.Uses[f.Sel].(*types.Func); ok {
			if sel, ok := c.info.Selections[f]; ok && (sel.Kind() == types.MethodVal) {
				return fn, f.X
			}
			return fn, nil
		}
	case *ast.ParenExpr:
		inner := *call
		inner.Fun = f.X
		return c.calleeOf(&inner)
	}
	return nil, nil
}

func (c *FCtx) evalCall(st *State, call *ast.CallExpr) []Val {
	// conversion T(x)
	if tv, ok := c.info.Types[call.Fun]; ok && tv.IsType() {
		v := c.eval(st, call.Args[0])
		return []Val{c.convert(st, v, c.info.TypeOf(call.Args[0]), tv.Type, call)}
	}
	if id, ok := call.Fun.(*ast.Ident); ok {
		if b, ok := c.info.ObjectOf(id).(*types.Builtin); ok {
			return c.evalBuiltin(st, b.Name(), call)
		}
	}
	fn, recvExpr := c.calleeOf(call)
	if fn == nil {
		fail("call of a function value: %s", c.exprStr(call))
	}
	key := funcKey(fn)
	sig := fn.Type().(*types.Signature)
	if recvExpr != nil {
		if rt := c.info.TypeOf(recvExpr); rt != nil && typeName(rt) == "sha3.ShakeHash" {
			key = "sha3.ShakeHash." + fn.Name()
		}
	}
	switch key {
	case "bytes.NewBuffer":
		c.note("bytes.Buffer + fmt.Fprint are modelled as an abstract text builder (T5)")
		return []Val{TXV{Sym("str_empty", "Str"), c.info.TypeOf(call)}}
	case "fmt.Fprint":
		id, ok := call.Args[0].(*ast.Ident)
		if !ok {
			fail("fmt.Fprint into something that is not a buffer variable")
		}
		cell := c.varCell(st, c.info.ObjectOf(id))
		tx, ok := st.cells[cell].(TXV)
		if !ok {
			fail("fmt.Fprint into a value that is not a modelled bytes.Buffer")
		}
		t := tx.T
		for _, a := range call.Args[1:] {
			t = App("sconcat", "Str", t, c.strOf(st, c.eval(st, a)))
		}
		st.cells[cell] = TXV{t, tx.Typ}
		st.written[cell] = true
		nw := Sym(c.freshName("fprint$n"), SInt)
		st.assume(Le(Num(0), nw))
		return []Val{SV{nw, types.Typ[types.Int]}, SV{False(), types.Universe.Lookup("error").Type()}}
	case "bytes.Buffer.String":
		tx, ok := c.eval(st, recvExpr).(TXV)
		if !ok {
			fail("String() of a value that is not a modelled bytes.Buffer")
		}
		lv := c.freshVal(st, "bufstr", types.Typ[types.String]).(LV)
		lv.Abs = tx.T
		return []Val{lv}
	}
	if strings.HasPrefix(key, "sha3.") {
		if vs, ok := c.xofCall(st, key, call, recvExpr); ok {
			return vs
		}
	}
	// receiver
	var args []Val
	var argExprs []ast.Expr
	if recvExpr != nil {
		rt := sig.Recv().Type()
		_, wantPtr := rt.Underlying().(*types.Pointer)
		_, isIface := rt.Underlying().(*types.Interface)
		have := c.info.TypeOf(recvExpr)
		_, havePtr := have.Underlying().(*types.Pointer)
		switch {
		case isIface:
			args = append(args, c.eval(st, recvExpr))
		case wantPtr && !havePtr:
			p, ok := c.resolvePlace(st, recvExpr)
			if !ok {
				fail("method call on non-addressable receiver")
			}
			args = append(args, PV{Cell: p.Cell, Path: p.Path, IsNil: False(), Typ: rt})
		case !wantPtr && havePtr:
			pv := c.eval(st, recvExpr).(PV)
			args = append(args, c.readPlace(st, c.derefPtr(st, pv, recvExpr)))
		default:
			args = append(args, c.eval(st, recvExpr))
		}
		argExprs = append(argExprs, recvExpr)
	}
	np := sig.Params().Len()
	if sig.Variadic() {
		// hard-wired knowledge about three variadic library functions
		switch key {
		case "fmt.Errorf", "fmt.Sprintf", "fmt.Sprint", "fmt.Fprint":
		default:
			fail("variadic call %s", key)
		}
		for _, a := range call.Args {
			c.evalForEffectsOnly(st, a)
		}
		switch key {
		case "fmt.Errorf":
			return []Val{SV{True(), sig.Results().At(0).Type()}}
		case "fmt.Sprintf", "fmt.Sprint":
			c.note("fmt.Sprintf result modelled as an arbitrary string")
			return []Val{c.freshVal(st, "sprintf", types.Typ[types.String])}
		}
	}
	if key == "errors.New" {
		return []Val{SV{True(), sig.Results().At(0).Type()}}
	}
	if len(call.Args) == 1 && np > 1 {
		// f(g()) with tuple
		inner, ok := call.Args[0].(*ast.CallExpr)
		if !ok {
			fail("argument count mismatch")
		}
		args = append(args, c.evalCall(st, inner)...)
		for i := 0; i < np; i++ {
			argExprs = append(argExprs, nil)
		}
	} else {
		for i, a := range call.Args {
			v := c.eval(st, a)
			if !sig.Variadic() || i < np-1 {
				pt := sig.Params().At(i).Type()
				v = c.coerceNil(st, v, pt)
				v = c.fitVal(st, v, pt)
			}
			args = append(args, c.copyVal(v))
			argExprs = append(argExprs, a)
		}
	}
	if st.dead {
		return c.deadResults(st, sig)
	}
	con := c.eng.cs.Funcs[key]
	fi := c.eng.byObj[fn]
	if fi == nil && fn.Pkg() != nil {
		// function of the repository reached through another package's type info
		fi = c.eng.funcs[key]
	}
	if key == "fmt.Fprint" && con == nil {
		fail("fmt.Fprint without an assumed contract")
	}
	if con == nil && fi != nil && fi.NLoops == 0 && fi.Decl.Body != nil {
		// a loop-free function of the repository without a contract (for instance a helper extracted by a refactoring)
		// is executed by its body: nothing is assumed about it
		c.note("uncontracted loop-free callee executed by its body: " + key)
		return c.inlineCall(st, fi, &Contract{Key: key, Loops: map[int]*LoopSpec{}, Inline: true}, args, call)
	}
	if con == nil {
		if fi != nil {
			fail("call to %s which has no contract (add one, or mark it inline)", key)
		}
		fail("call to external function %s without an assumed contract in /verif/spec/extern.contracts", key)
	}
	con.Used = true
	forceInline := false
	if c.con != nil {
		for _, k := range c.con.Inlines {
			if k == key {
				forceInline = true
			}
		}
	}
	if con.Inline || forceInline {
		if fi == nil {
			fail("inline contract on external function %s", key)
		}
		return c.inlineCall(st, fi, con, args, call)
	}
	if con.External {
		c.note("assumed contract on dependency: " + key)
	} else if con.Trusted != "" {
		c.note("trusted contract (body not verified): " + key + " — " + con.Trusted)
	}
	return c.callContract(st, con, fi, fn, args, argExprs, call)
}

func (c *FCtx) deadResults(st *State, sig *types.Signature) []Val {
	var out []Val
	for i := 0; i < sig.Results().Len(); i++ {
		out = append(out, c.zeroVal(st, sig.Results().At(i).Type()))
	}
	return out
}

// alignNames maps every entry of the contract's `names` table (the variables the function declared when the contract
// was written: receiver+parameters | named results | locals) to the index of the corresponding variable in the
// function's CURRENT declaration list, or -1.  Each of the three groups is aligned on its own: equal length means
// position by position; otherwise the names common to both lists (longest common subsequence) are anchors and the
// stretches between two anchors are paired in order from their start.
var alignCache sync.Map // *Contract -> []int

func alignNames(fi *FuncInfo, con *Contract) []int {
	if fi == nil || con == nil || len(con.Names) == 0 || len(fi.DeclOrder) == 0 {
		return nil
	}
	if v, ok := alignCache.Load(con); ok {
		return v.([]int)
	}
	out := make([]int, len(con.Names))
	for k := range out {
		out[k] = -1
	}
	cur := make([]string, len(fi.DeclOrder))
	curT := make([]string, len(fi.DeclOrder))
	for k, v := range fi.DeclOrder {
		cur[k] = v.Name()
		curT[k] = typeKey(v.Type())
	}
	recT := func(k int) string {
		if k < len(con.NamesType) {
			return con.NamesType[k]
		}
		return ""
	}
	recTag := func(k int) string {
		if k < len(con.NamesTag) {
			return con.NamesTag[k]
		}
		return ""
	}
	sameT := func(r, c int) bool { return recT(r) == "" || recT(r) == curT[c] }
	usedR := make([]bool, len(con.Names))
	usedC := make([]bool, len(cur))
	// 1. variables declared by loops keep their role (loop ordinal + init / key / value), whatever else changed
	for r := range con.Names {
		t := recTag(r)
		if t == "" {
			continue
		}
		for c, v := range fi.DeclOrder {
			if !usedC[c] && recordedTag(fi, con, fi.DeclTag[v]) == t {
				out[r] = c
				usedR[r], usedC[c] = true, true
				break
			}
		}
		if !usedR[r] {
			usedR[r] = true // its loop no longer declares such a variable (for instance a keyless range): resolved at lookup
		}
	}
	group := func(r0, r1, c0, c1 int) {
		var rs, cs []int
		for r := r0; r < r1; r++ {
			if !usedR[r] {
				rs = append(rs, r)
			}
		}
		for c := c0; c < c1; c++ {
			if !usedC[c] {
				cs = append(cs, c)
			}
		}
		if len(rs) == len(cs) {
			ok := true
			for k := range rs {
				if !sameT(rs[k], cs[k]) {
					ok = false
				}
			}
			if ok {
				for k := range rs {
					out[rs[k]] = cs[k]
				}
				return
			}
		}
		// anchors: longest common subsequence on (name, type)
		n, m := len(rs), len(cs)
		eq := func(a, b int) bool { return con.Names[rs[a]] == cur[cs[b]] && sameT(rs[a], cs[b]) }
		L := make([][]int, n+1)
		for a := range L {
			L[a] = make([]int, m+1)
		}
		for a := n - 1; a >= 0; a-- {
			for b := m - 1; b >= 0; b-- {
				if eq(a, b) {
					L[a][b] = L[a+1][b+1] + 1
				} else if L[a+1][b] >= L[a][b+1] {
					L[a][b] = L[a+1][b]
				} else {
					L[a][b] = L[a][b+1]
				}
			}
		}
		a, b := 0, 0
		ga, gb := 0, 0 // start of the current gap
		flush := func(ea, eb int) {
			// a stretch between two anchors: paired in order, an entry only with a variable of its recorded type.  A
			// wrong guess can only make an obligation fail - every obligation is still proved under the resolved names
			y := gb
			for x := ga; x < ea; x++ {
				for y < eb && !sameT(rs[x], cs[y]) {
					y++
				}
				if y >= eb {
					break
				}
				out[rs[x]] = cs[y]
				y++
			}
		}
		for a < n && b < m {
			if eq(a, b) {
				flush(a, b)
				out[rs[a]] = cs[b]
				a++
				b++
				ga, gb = a, b
			} else if L[a+1][b] >= L[a][b+1] {
				a++
			} else {
				b++
			}
		}
		flush(n, m)
	}
	rin, rout := con.NamesIn, con.NamesOut
	if rin+rout > len(con.Names) || fi.NSigIn+fi.NSigOut > len(cur) {
		alignCache.Store(con, out)
		return out
	}
	group(0, rin, 0, fi.NSigIn)
	group(rin, rin+rout, fi.NSigIn, fi.NSigIn+fi.NSigOut)
	group(rin+rout, len(con.Names), fi.NSigIn+fi.NSigOut, len(cur))
	alignCache.Store(con, out)
	return out
}

// recordedTag: a variable's loop role with the loop ordinal translated to the one the loop had when the contract was written
func recordedTag(fi *FuncInfo, con *Contract, tag string) string {
	if tag == "" {
		return ""
	}
	k := 0
	for k < len(tag) && tag[k] >= '0' && tag[k] <= '9' {
		k++
	}
	ord, err := strconv.Atoi(tag[:k])
	if err != nil {
		return tag
	}
	return strconv.Itoa(loopRecorded(fi, con, ord)) + tag[k:]
}

// recordedSig: the contract's own names for receiver+parameters (or named results), when every one of them is
// aligned position by position with the current declaration.
func recordedSig(fi *FuncInfo, con *Contract, results bool) []string {
	al := alignNames(fi, con)
	if al == nil {
		return nil
	}
	lo, hi, base, cnt := 0, con.NamesIn, 0, fi.NSigIn
	if results {
		lo, hi, base, cnt = con.NamesIn, con.NamesIn+con.NamesOut, fi.NSigIn, fi.NSigOut
	}
	if hi-lo != cnt || cnt == 0 {
		return nil
	}
	for k := lo; k < hi; k++ {
		if al[k] != base+(k-lo) {
			return nil
		}
	}
	return append([]string(nil), con.Names[lo:hi]...)
}

func paramNames(fi *FuncInfo, con *Contract, fn *types.Func) (names []string) {
	if fi != nil {
		defer func() {
			// the names the contract was written with, when parameters have been renamed since
			if rec := recordedSig(fi, con, false); rec != nil && len(names) == len(rec) {
				ok := true
				for _, n := range names {
					if n == "_" || n == "_recv" {
						ok = false
					}
				}
				if ok {
					copy(names, rec)
				}
			}
		}()
		if fi.Decl.Recv != nil {
			for _, f := range fi.Decl.Recv.List {
				if len(f.Names) == 0 {
					names = append(names, "_recv")
				}
				for _, n := range f.Names {
					names = append(names, n.Name)
				}
			}
		}
		for _, f := range fi.Decl.Type.Params.List {
			if len(f.Names) == 0 {
				names = append(names, "_")
			}
			for _, n := range f.Names {
				names = append(names, n.Name)
			}
		}
		return names
	}
	if len(con.Params) > 0 {
		return con.Params
	}
	sig := fn.Type().(*types.Signature)
	if sig.Recv() != nil {
		names = append(names, "self")
	}
	for i := 0; i < sig.Params().Len(); i++ {
		n := sig.Params().At(i).Name()
		if n == "" {
			n = fmt.Sprintf("p%d", i)
		}
		names = append(names, n)
	}
	return names
}

func resultNames(fi *FuncInfo, con *Contract, fn *types.Func) []string {
	sig := fn.Type().(*types.Signature)
	var names []string
	if con != nil && len(con.Results) > 0 {
		return con.Results
	}
	if rec := recordedSig(fi, con, true); rec != nil && len(rec) == sig.Results().Len() {
		return rec
	}
	if fi != nil && con != nil && fi.NSigOut == 0 && con.NamesOut > 0 && con.NamesOut == sig.Results().Len() && con.NamesIn+con.NamesOut <= len(con.Names) {
		// the results were named when the contract was written and are anonymous now: the contract keeps its names
		return append([]string(nil), con.Names[con.NamesIn:con.NamesIn+con.NamesOut]...)
	}
	for i := 0; i < sig.Results().Len(); i++ {
		n := sig.Results().At(i).Name()
		if n == "" || n == "_" {
			if sig.Results().Len() == 1 {
				n = "result"
			} else {
				n = fmt.Sprintf("result%d", i)
			}
		}
		names = append(names, n)
	}
	return names
}

// Region: what an `assigns` item denotes in a given state.
type Region struct {
	Cell   int
	Path   []Sel
	Ranged bool
	Lo, Hi *Term
	Src    string
}

func (env *CEnv) region(e *CExpr) Region {
	switch e.Kind {
	case "un":
		if e.Op == "*" {
			pv, ok := env.eval(e.X).(PV)
			if !ok {
				fail("%s: assigns *x needs a pointer", e.Pos)
			}
			return Region{Cell: pv.Cell, Path: pv.Path}
		}
	case "ident":
		v := env.eval(e)
		switch x := v.(type) {
		case LV:
			return Region{Cell: x.Cell, Path: x.Path, Ranged: true, Lo: x.Off, Hi: Add(x.Off, x.Len)}
		case PV:
			return Region{Cell: x.Cell, Path: x.Path}
		}
		fail("%s: assigns %s: not a reference", e.Pos, e)
	case "field":
		base := env.eval(e.X)
		var r Region
		var st *types.Struct
		switch x := base.(type) {
		case PV:
			r = Region{Cell: x.Cell, Path: x.Path}
			st = x.Typ.Underlying().(*types.Pointer).Elem().Underlying().(*types.Struct)
		default:
			r = env.region(e.X)
			fail("%s: assigns through a non-pointer field path is not supported", e.Pos)
		}
		for i := 0; i < st.NumFields(); i++ {
			if st.Field(i).Name() == e.Name {
				r.Path = appendSel(r.Path, Sel{Field: i})
				// a slice-typed field: the region is the field's backing window
				fv := env.readPV(base.(PV), []Sel{{Field: i}})
				if lv, ok := fv.(LV); ok {
					return Region{Cell: lv.Cell, Path: lv.Path, Ranged: true, Lo: lv.Off, Hi: Add(lv.Off, lv.Len)}
				}
				return r
			}
		}
		fail("%s: no field %s", e.Pos, e.Name)
	case "index":
		base := env.eval(e.X)
		idx := env.evalInt(e.Y)
		switch x := base.(type) {
		case LV:
			return Region{Cell: x.Cell, Path: appendSel(x.Path, Sel{IsIdx: true, Idx: Add(x.Off, idx)})}
		case PV:
			return Region{Cell: x.Cell, Path: appendSel(x.Path, Sel{IsIdx: true, Idx: idx})}
		}
		r := env.region(e.X)
		r.Path = appendSel(r.Path, Sel{IsIdx: true, Idx: idx})
		return r
	case "slice":
		base := env.eval(e.X)
		var r Region
		var off, ln *Term
		switch x := base.(type) {
		case LV:
			r = Region{Cell: x.Cell, Path: x.Path}
			off, ln = x.Off, x.Len
		case PV:
			at, ok := x.Typ.Underlying().(*types.Pointer).Elem().Underlying().(*types.Array)
			if !ok {
				fail("%s: assigns range of pointer to non-array", e.Pos)
			}
			r = Region{Cell: x.Cell, Path: x.Path}
			off, ln = Num(0), Num(at.Len())
		default:
			r = env.region(e.X)
			if r.Ranged {
				fail("%s: nested ranges in assigns", e.Pos)
			}
			av, ok := env.c.project(env.st.cells[r.Cell], r.Path).(AV)
			if !ok {
				fail("%s: assigns range of non-array", e.Pos)
			}
			off, ln = Num(0), Num(av.Typ.Underlying().(*types.Array).Len())
		}
		lo, hi := Num(0), ln
		if e.Y != nil {
			lo = env.evalInt(e.Y)
		}
		if e.Z != nil {
			hi = env.evalInt(e.Z)
		}
		r.Ranged = true
		r.Lo, r.Hi = Add(off, lo), Add(off, hi)
		return r
	}
	fail("%s: unsupported assigns item %s", e.Pos, e)
	return Region{}
}

func (c *FCtx) havocRegion(st *State, r Region, name string) {
	cv, ok := st.cells[r.Cell]
	if !ok {
		fail("assigns names a cell that is not in the state")
	}
	cur := c.project(cv, r.Path)
	if !r.Ranged {
		c.writePlace(st, Place{Cell: r.Cell, Path: r.Path}, c.havocLike(st, name, cur))
		return
	}
	var oldT *Term
	var mk func(t *Term) Val
	switch x := cur.(type) {
	case AV:
		oldT = x.T
		mk = func(t *Term) Val { return AV{t, x.Typ} }
		nt := Sym(c.freshName(name), oldT.S)
		st.assume(c.arrayTypeInv(nt, x.Typ))
		q := Sym(c.freshName("q"), SInt)
		st.assume(Forall([]*Term{q}, Implies(Or(Lt(q, r.Lo), Ge(q, r.Hi)), Eq(Select(nt, q), Select(oldT, q))), Select(nt, q)))
		c.writePlace(st, Place{Cell: r.Cell, Path: r.Path}, mk(nt))
	case MV:
		oldT = x.T
		nt := Sym(c.freshName(name), oldT.S)
		st.assume(c.memTypeInv(nt, x.Elem))
		q := Sym(c.freshName("q"), SInt)
		st.assume(Forall([]*Term{q}, Implies(Or(Lt(q, r.Lo), Ge(q, r.Hi)), Eq(Select(nt, q), Select(oldT, q))), Select(nt, q)))
		c.writePlace(st, Place{Cell: r.Cell, Path: r.Path}, MV{nt, x.Elem})
	default:
		fail("ranged assigns on %T", cur)
	}
}

// refArgs lists the memory an argument value refers to (for the disjointness obligations).
type refArg struct {
	name   string
	cell   int
	path   []Sel
	isLV   bool
	lo, hi *Term
}

func refOf(name string, v Val) (refArg, bool) {
	switch x := v.(type) {
	case PV:
		if x.IsNil.IsTrue() {
			return refArg{}, false
		}
		return refArg{name: name, cell: x.Cell, path: x.Path}, true
	case LV:
		return refArg{name: name, cell: x.Cell, path: x.Path, isLV: true, lo: x.Off, hi: Add(x.Off, x.Len)}, true
	}
	return refArg{}, false
}

// disjoint returns a term that implies the two references do not overlap (False when they certainly may).
func disjoint(a, b refArg) *Term {
	if a.cell != b.cell {
		return True()
	}
	n := len(a.path)
	if len(b.path) < n {
		n = len(b.path)
	}
	var conds []*Term
	for i := 0; i < n; i++ {
		sa, sb := a.path[i], b.path[i]
		if sa.IsIdx != sb.IsIdx {
			return False()
		}
		if !sa.IsIdx {
			if sa.Field != sb.Field {
				return True()
			}
			continue
		}
		conds = append(conds, Ne(sa.Idx, sb.Idx))
	}
	if len(a.path) == len(b.path) && a.isLV && b.isLV {
		conds = append(conds, Or(Le(a.hi, b.lo), Le(b.hi, a.lo)))
	}
	if len(conds) == 0 {
		return False()
	}
	return Or(conds...)
}

func (c *FCtx) callContract(st *State, con *Contract, fi *FuncInfo, fn *types.Func, args []Val, argExprs []ast.Expr, call *ast.CallExpr) []Val {
	sig := fn.Type().(*types.Signature)
	pnames := paramNames(fi, con, fn)
	if len(pnames) != len(args) {
		fail("contract of %s: %d parameter names for %d arguments", con.Key, len(pnames), len(args))
	}
	names := map[string]Val{}
	for i, n := range pnames {
		names[n] = args[i]
	}
	pre := st.clone()
	pkg := c.eng.byName[strings.SplitN(con.Key, ".", 2)[0]]
	env := &CEnv{c: c, names: names, st: pre, old: pre, pkg: pkg}
	pos := c.eng.pos(call)
	short := con.Key
	for k, rq := range con.Requires {
		if !rq.visible(c.prop) {
			continue
		}
		c.oblige(st, "call-pre", fmt.Sprintf("call %s/requires[%d] %s", short, k+1, rq.Src), env.evalBool(rq.E), pos)
		st.assume(env.evalBool(rq.E))
	}
	// regions the callee may write
	var regs []Region
	for _, a := range con.Assigns {
		r := env.region(a.E)
		r.Src = a.Src
		regs = append(regs, r)
	}
	// aliasing discipline: a written reference must not overlap any other reference argument unless declared
	var refs []refArg
	for i, n := range pnames {
		if r, ok := refOf(n, args[i]); ok {
			refs = append(refs, r)
		}
	}
	written := func(r refArg) bool {
		for _, g := range regs {
			if g.Cell == r.cell {
				return true
			}
		}
		return false
	}
	declared := func(a, b string) bool {
		for _, al := range con.Aliases {
			if al[0] == a && al[1] == b || al[0] == b && al[1] == a {
				return true
			}
		}
		return false
	}
	for i := 0; i < len(refs); i++ {
		for j := i + 1; j < len(refs); j++ {
			if !written(refs[i]) && !written(refs[j]) {
				continue
			}
			if declared(refs[i].name, refs[j].name) {
				if con.AliasSame[refs[i].name+"|"+refs[j].name] && refs[i].cell == refs[j].cell && refs[i].isLV && refs[j].isLV {
					d := Or(disjoint(refs[i], refs[j]), Eq(refs[i].lo, refs[j].lo))
					c.oblige(st, "call-pre", fmt.Sprintf("call %s/disjoint-or-same-start(%s,%s)", short, refs[i].name, refs[j].name), d, pos)
				}
				continue
			}
			d := disjoint(refs[i], refs[j])
			c.oblige(st, "call-pre", fmt.Sprintf("call %s/disjoint(%s,%s)", short, refs[i].name, refs[j].name), d, pos)
		}
	}
	// explicit refusals of the callee propagate
	for _, pc := range con.Panics {
		if pc.When == nil || !pc.When.visible(c.prop) {
			// no (visible) condition: the callee may refuse at any time
			ps := st.clone()
			c.side = append(c.side, Flow{st: ps, kind: fPanic, msg: pc.Msg, pos: pos})
			continue
		}
		cond := env.evalBool(pc.When.E)
		if cond.IsFalse() {
			continue
		}
		ps := st.clone()
		ps.assume(cond)
		c.side = append(c.side, Flow{st: ps, kind: fPanic, msg: pc.Msg, pos: pos})
		st.assume(Not(cond))
	}
	// inputs of the call as terms (for `pure` contracts: outputs are uninterpreted functions of exactly these)
	var pureIn []*Term
	if con.Pure {
		pureIn = c.packInputs(st, con.Key, c.pureInputs(pre, con, pnames, args))
	}
	// havoc
	for i, r := range regs {
		if con.Pure && c.overlayPureRegion(st, r, fmt.Sprintf("pure$%s$w%d", con.Key, i), pureIn) {
			continue
		}
		c.havocRegion(st, r, fmt.Sprintf("%s$%d", fn.Name(), i))
		if con.Pure {
			c.assumePureRegion(st, r, fmt.Sprintf("pure$%s$w%d", con.Key, i), pureIn)
		}
	}
	// results
	rnames := resultNames(fi, con, fn)
	var results []Val
	post := &CEnv{c: c, names: map[string]Val{}, st: st, old: pre, pkg: pkg}
	for k, v := range names {
		post.names[k] = v
	}
	for i := 0; i < sig.Results().Len(); i++ {
		rv := c.freshVal(st, fn.Name()+"$ret", sig.Results().At(i).Type())
		results = append(results, rv)
		if i < len(rnames) {
			post.names[rnames[i]] = rv
		}
		if sig.Results().Len() == 1 {
			post.names["result"] = rv
		}
	}
	quiet := false
	if c.con != nil {
		for _, q := range c.con.Quiet {
			if q == con.Key {
				quiet = true
			}
		}
	}
	for _, en := range con.Ensures {
		if !en.visible(c.prop) || quiet {
			continue
		}
		st.assume(post.evalBool(en.E))
	}
	if con.Pure {
		for i, rv := range results {
			c.assumePureVal(st, rv, fmt.Sprintf("pure$%s$r%d", con.Key, i), pureIn)
		}
		c.note("purity (result and final state are a function of the arguments) of " + con.Key + " is discharged by the effects back end")
	}
	return results
}

// pureInputs: the argument list of the uninterpreted functions that describe a `pure` callee: every argument,
// flattened; an argument with a `reads p[lo:hi]` clause contributes only that window.
func (c *FCtx) pureInputs(st *State, con *Contract, pnames []string, args []Val) []*Term {
	var in []*Term
	for i, a := range args {
		if rd, ok := con.Reads[pnames[i]]; ok {
			var arr *Term
			switch x := a.(type) {
			case PV:
				if av, ok := c.project(st.cells[x.Cell], x.Path).(AV); ok {
					arr = av.T
				}
			case AV:
				arr = x.T
			case LV:
				arr = c.memTerm(st, x)
				in = append(in, subBytesAny(arr, Add(x.Off, Num(rd[0])), Num(rd[1]-rd[0])))
				continue
			}
			if arr == nil {
				fail("reads clause on %s of %s: not an array-like argument", pnames[i], con.Key)
			}
			in = append(in, subBytesAny(arr, Num(rd[0]), Num(rd[1]-rd[0])))
			continue
		}
		in = append(in, c.valTerms(st, a, 0)...)
	}
	return in
}

// packInputs names the whole argument tuple of a pure call by one fresh constant p = pack$key(inputs...), so that
// the uninterpreted output functions take a single argument (keeps VCs small; congruence is unchanged).
func (c *FCtx) packInputs(st *State, key string, in []*Term) []*Term {
	p := Sym(c.freshName("pin"), Sort("PureIn"))
	st.assume(Eq(p, App("pack$"+key, Sort("PureIn"), in...)))
	return []*Term{p}
}

// valTerms flattens a value (and the memory it refers to, in state st) into SMT terms.
func (c *FCtx) valTerms(st *State, v Val, depth int) []*Term {
	if depth > 6 {
		fail("value too deep for a pure-function argument")
	}
	switch x := v.(type) {
	case SV:
		return []*Term{x.T}
	case AV:
		if x.T.S == SArr(SInt) {
			return []*Term{subBytes(x.T, Num(0), Num(x.Typ.Underlying().(*types.Array).Len()))}
		}
		return []*Term{x.T}
	case MV:
		return []*Term{x.T}
	case CV:
		return []*Term{subBytesAny(x.Arr, x.Off, x.Len), x.Len}
	case FXV:
		return []*Term{subBytesAny(x.V.Arr, x.V.Off, x.V.Len)}
	case TV:
		var out []*Term
		for _, f := range x.Fs {
			out = append(out, c.valTerms(st, f, depth+1)...)
		}
		return out
	case LV:
		if x.IsNil.IsTrue() {
			return []*Term{Num(0)}
		}
		return []*Term{subBytesAny(c.memTerm(st, x), x.Off, x.Len), x.Len}
	case PV:
		if x.IsNil.IsTrue() {
			return nil
		}
		cv, ok := st.cells[x.Cell]
		if !ok {
			return nil
		}
		return c.valTerms(st, c.project(cv, x.Path), depth+1)
	case XV:
		return []*Term{Num(x.Kind), x.Arr, x.Len, x.RPos}
	case nilVal:
		return nil
	}
	fail("cannot pass %T to a pure function", v)
	return nil
}

// subBytesAny: canonical window of a backing store (only byte/int element stores are canonicalised with sub)
func subBytesAny(mem, off, n *Term) *Term {
	if mem.S == SArr(SInt) {
		return subBytes(mem, off, n)
	}
	return mem
}

func (c *FCtx) assumePureVal(st *State, v Val, name string, in []*Term) {
	switch x := v.(type) {
	case SV:
		st.assume(Eq(x.T, App(name, x.T.S, in...)))
	case AV:
		st.assume(Eq(x.T, App(name, x.T.S, in...)))
	case TV:
		for i, f := range x.Fs {
			c.assumePureVal(st, f, fmt.Sprintf("%s.%d", name, i), in)
		}
	case LV:
		st.assume(Eq(x.Len, App(name+"$len", SInt, in...)))
		st.assume(Eq(x.IsNil, App(name+"$nil", SBool, in...)))
		m := c.memTerm(st, x)
		if m.S == SArr(SInt) {
			q := Sym(c.freshName("q"), SInt)
			st.assume(Forall([]*Term{q}, Implies(And(Le(Num(0), q), Lt(q, x.Len)), Eq(Select(m, Add(x.Off, q)), Select(App(name, m.S, in...), q)))))
		}
	case PV:
		if cv, ok := st.cells[x.Cell]; ok && len(x.Path) == 0 {
			c.assumePureVal(st, cv, name+"^", in)
		}
	}
}

// overlayPureRegion: for a byte-array window assigned by a pure callee the new backing store is the TERM
// overlay(old, lo, n, F(inputs)) rather than a fresh array with a quantified definition: later uses then
// reduce by ground rewriting (sub(overlay(M,lo,n,S),lo,n) = sub(S,0,n)) instead of extensionality proofs.
func (c *FCtx) overlayPureRegion(st *State, r Region, name string, in []*Term) bool {
	if !r.Ranged {
		return false
	}
	cur := c.project(st.cells[r.Cell], r.Path)
	mv, ok := cur.(MV)
	if !ok || mv.T.S != SArr(SInt) {
		return false
	}
	n := Sub(r.Hi, r.Lo)
	nt := App("overlay", SArr(SInt), mv.T, r.Lo, n, App(name, SArr(SInt), in...))
	// element type facts: the callee stores values of the element type
	if k, ok := intKindOf(mv.Elem); ok {
		q := Sym(c.freshName("q"), SInt)
		st.assume(Forall([]*Term{q}, rangeFact(Select(nt, q), k), Select(nt, q)))
	}
	c.writePlace(st, Place{Cell: r.Cell, Path: r.Path}, MV{nt, mv.Elem})
	return true
}

func (c *FCtx) assumePureRegion(st *State, r Region, name string, in []*Term) {
	cur := c.project(st.cells[r.Cell], r.Path)
	if !r.Ranged {
		c.assumePureVal(st, cur, name, in)
		return
	}
	var m *Term
	switch x := cur.(type) {
	case MV:
		m = x.T
	case AV:
		m = x.T
	default:
		return
	}
	q := Sym(c.freshName("q"), SInt)
	st.assume(Forall([]*Term{q}, Implies(And(Le(r.Lo, q), Lt(q, r.Hi)), Eq(Select(m, q), Select(App(name, m.S, in...), Sub(q, r.Lo))))))
}

// mergeFlows joins several flows that forked from base (all share base's pc as a prefix).
func (c *FCtx) mergeFlows(base *State, prefix int, flows []Flow) (*State, [][]Val, bool) {
	if len(flows) == 1 {
		return flows[0].st, [][]Val{flows[0].results}, true
	}
	// Path conditions form a prefix tree (flows fork at branch literals).  The merged hypotheses are the shared
	// prefix, then per fork "one of the branch literals holds" and each later fact guarded by its branch literals.
	var outPC []*Term
	conds := make([]*Term, len(flows))
	for i := range conds {
		conds[i] = True()
	}
	var build func(idx []int, start int, guard *Term)
	build = func(idx []int, start int, guard *Term) {
		pos := start
		for {
			f0 := flows[idx[0]].st.pc
			if pos >= len(f0) {
				break
			}
			t := f0[pos]
			same := true
			for _, k := range idx[1:] {
				if pos >= len(flows[k].st.pc) || flows[k].st.pc[pos] != t {
					same = false
					break
				}
			}
			if !same {
				break
			}
			outPC = append(outPC, Implies(guard, t))
			pos++
		}
		if len(idx) == 1 {
			return
		}
		// group by the literal at pos
		var order []*Term
		groups := map[*Term][]int{}
		for _, k := range idx {
			var lit *Term
			if pos < len(flows[k].st.pc) {
				lit = flows[k].st.pc[pos]
			} else {
				lit = True()
			}
			if _, ok := groups[lit]; !ok {
				order = append(order, lit)
			}
			groups[lit] = append(groups[lit], k)
		}
		if len(order) == 1 {
			// identical remaining conditions: nothing distinguishes the flows any more
			return
		}
		var lits []*Term
		for _, lit := range order {
			lits = append(lits, lit)
			g := And(guard, lit)
			for _, k := range groups[lit] {
				conds[k] = And(conds[k], lit)
			}
			build(groups[lit], pos+1, g)
		}
		outPC = append(outPC, Implies(guard, Or(lits...)))
	}
	all := make([]int, len(flows))
	for i := range all {
		all[i] = i
	}
	build(all, prefix, True())
	m := flows[len(flows)-1].st.clone()
	m.pc = append([]*Term(nil), base.pc[:prefix]...)
	m.pc = append(m.pc, outPC...)
	res := append([]Val(nil), flows[len(flows)-1].results...)
	for i := len(flows) - 2; i >= 0; i-- {
		fs := flows[i].st
		for k, v := range fs.cells {
			if mv, ok := m.cells[k]; ok {
				if sameVal(mv, v) {
					continue
				}
				nv, ok := c.valIte(conds[i], v, mv)
				if !ok {
					return nil, nil, false
				}
				m.cells[k] = nv
			} else {
				m.cells[k] = v
			}
		}
		for k := range fs.written {
			m.written[k] = true
		}
		for k, v := range fs.vars {
			if _, ok := m.vars[k]; !ok {
				m.vars[k] = v
			}
		}
		for j := range res {
			if sameVal(res[j], flows[i].results[j]) {
				continue
			}
			nv, ok := c.valIte(conds[i], flows[i].results[j], res[j])
			if !ok {
				return nil, nil, false
			}
			res[j] = nv
		}
	}
	return m, [][]Val{res}, true
}

func (c *FCtx) inlineCall(st *State, fi *FuncInfo, con *Contract, args []Val, call *ast.CallExpr) []Val {
	if c.inlineDepth > 8 {
		fail("inline depth exceeded at %s", fi.Key)
	}
	saveInfo, savePkg, saveSig, saveFI, saveCon, saveRes, saveFunc := c.info, c.pkg, c.curSig, c.curFI, c.curCon, c.results, c.curFunc
	defer func() {
		c.info, c.pkg, c.curSig, c.curFI, c.curCon, c.results, c.curFunc = saveInfo, savePkg, saveSig, saveFI, saveCon, saveRes, saveFunc
		c.inlineDepth--
	}()
	c.inlineDepth++
	c.info, c.pkg = fi.Pkg.TypesInfo, fi.Pkg.Types
	c.curSig = fi.Obj.Type().(*types.Signature)
	c.curFI, c.curCon = fi, con
	// obligations inside an inlined body are attributed to the caller, named after the callee
	c.curFunc = saveFunc + "/inline " + fi.Key
	// bind parameters
	i := 0
	bind := func(fl *ast.FieldList) {
		if fl == nil {
			return
		}
		for _, f := range fl.List {
			if len(f.Names) == 0 {
				i++
				continue
			}
			for _, n := range f.Names {
				if n.Name != "_" {
					c.declare(st, c.info.Defs[n], args[i])
				}
				i++
			}
		}
	}
	bind(fi.Decl.Recv)
	bind(fi.Decl.Type.Params)
	c.results = nil
	if fi.Decl.Type.Results != nil {
		for _, f := range fi.Decl.Type.Results.List {
			for _, n := range f.Names {
				obj := c.info.Defs[n]
				c.declare(st, obj, c.zeroVal(st, obj.Type()))
				c.results = append(c.results, obj)
			}
		}
	}
	prefix := len(st.pc)
	sub := st.clone()
	flows := c.execBlock(sub, fi.Decl.Body.List)
	flows = append(flows, c.takeSide()...)
	var rets []Flow
	for _, f := range flows {
		switch f.kind {
		case fReturn:
			rets = append(rets, f)
		case fNormal:
			if c.curSig.Results().Len() > 0 {
				fail("inlined %s falls off its end", fi.Key)
			}
			rets = append(rets, f)
		case fPanic:
			c.side = append(c.side, f)
		default:
			fail("inlined %s ends with flow kind %d", fi.Key, f.kind)
		}
	}
	if len(rets) == 0 {
		st.dead = true
		return c.deadResults(st, c.curSig)
	}
	m, res, ok := c.mergeFlows(st, prefix, rets)
	if !ok {
		fail("cannot merge the return paths of inlined %s", fi.Key)
	}
	*st = *m
	return res[0]
}

// ---- built-ins -----------------------------------------------------------------------------------

func (c *FCtx) evalBuiltin(st *State, name string, call *ast.CallExpr) []Val {
	switch name {
	case "len", "cap":
		v := c.eval(st, call.Args[0])
		switch x := v.(type) {
		case LV:
			if name == "cap" {
				return []Val{SV{x.Cap, types.Typ[types.Int]}}
			}
			return []Val{SV{x.Len, types.Typ[types.Int]}}
		case AV:
			return []Val{SV{Num(x.Typ.Underlying().(*types.Array).Len()), types.Typ[types.Int]}}
		case PV:
			if at, ok := x.Typ.Underlying().(*types.Pointer).Elem().Underlying().(*types.Array); ok {
				return []Val{SV{Num(at.Len()), types.Typ[types.Int]}}
			}
		}
		fail("len of %T", v)
	case "make":
		t := c.info.TypeOf(call)
		switch u := t.Underlying().(type) {
		case *types.Slice:
			if _, isPtr := u.Elem().Underlying().(*types.Pointer); isPtr {
				fail("make of a slice of pointers")
			}
			n := c.evalIndex(st, call.Args[1])
			capT := n
			if len(call.Args) > 2 {
				capT = c.evalIndex(st, call.Args[2])
			}
			goal := And(Le(Num(0), n), Le(n, capT), Le(capT, NumB(maxMake)))
			c.oblige(st, "safety", "make-size "+c.exprStr(call), goal, c.eng.pos(call))
			st.assume(goal)
			cell := c.newCell(st, MV{c.zeroMem(u.Elem()), u.Elem()})
			return []Val{LV{Cell: cell, Off: Num(0), Len: n, Cap: capT, Elem: u.Elem(), IsNil: False(), Typ: t}}
		case *types.Map:
			ks := c.sortOf(u.Key())
			has := ConstArr(Sort("(Array "+string(ks)+" Bool)"), False())
			val := Sym(c.freshName("map$val"), Sort("(Array "+string(ks)+" "+string(c.sortOf(u.Elem()))+")"))
			return []Val{FV{Present: has, Value: val, Typ: t}}
		}
		fail("make of %s", t)
	case "copy":
		dst := c.eval(st, call.Args[0]).(LV)
		src := c.eval(st, call.Args[1]).(LV)
		n := Ite(Le(dst.Len, src.Len), dst.Len, src.Len)
		srcMem := c.memTerm(st, src)
		p := Place{Cell: dst.Cell, Path: dst.Path}
		cur := c.readPlace(st, p)
		var oldT *Term
		switch x := cur.(type) {
		case MV:
			oldT = x.T
		case AV:
			oldT = x.T
		default:
			fail("copy into %T", cur)
		}
		// small constant lengths: expand into stores (keeps VCs quantifier-free)
		var nt *Term
		if n.IsNum() && n.Num.IsInt64() && n.Num.Int64() <= 8 {
			nt = oldT
			for k := int64(0); k < n.Num.Int64(); k++ {
				nt = Store(nt, Add(dst.Off, Num(k)), Select(srcMem, Add(src.Off, Num(k))))
			}
		} else if oldT.Op == "constarr" && len(oldT.Args) == 1 && oldT.Args[0].IsNum() && oldT.Args[0].Num.Sign() == 0 && oldT.S == SArr(SInt) && srcMem.S == SArr(SInt) &&
			dst.Off.IsNum() && dst.Off.Num.Sign() == 0 && sameTerm(dst.Len, src.Len) {
			// a fresh all-zero buffer filled completely from a window of equal length: the new contents are exactly the
			// canonical byte string sub(src, off, n) (zero outside [0,n)), so later specification terms coincide syntactically
			nt = subBytes(srcMem, src.Off, dst.Len)
		} else if false && oldT.S == SArr(SInt) && srcMem.S == SArr(SInt) {
			// memmove semantics (the source window is read from the pre-state) as one term: later uses reduce by
			// rewriting with the overlay/sub axioms of the prelude
			nt = App("overlay", oldT.S, oldT, dst.Off, n, subBytes(srcMem, src.Off, n))
		} else {
			nt = Sym(c.freshName("copy"), oldT.S)
			q := Sym(c.freshName("q"), SInt)
			inWin := And(Le(dst.Off, q), Lt(q, Add(dst.Off, n)))
			// memmove semantics: the source is read from the pre-state
			st.assume(Forall([]*Term{q}, Ite(inWin, Eq(Select(nt, q), Select(srcMem, Add(src.Off, Sub(q, dst.Off)))), Eq(Select(nt, q), Select(oldT, q))), Select(nt, q)))
		}
		switch x := cur.(type) {
		case MV:
			c.writePlace(st, p, MV{nt, x.Elem})
		case AV:
			c.writePlace(st, p, AV{nt, x.Typ})
		}
		return []Val{SV{n, types.Typ[types.Int]}}
	case "append":
		// append(s, t...) / append(s, e1, e2, ...) on integer-element slices whose capacity equals their length (a
		// full slice, for instance x[:] of an array): Go allocates a new backing array, so the result is a fresh
		// buffer holding s followed by the appended elements and nothing else is written.  A slice with spare
		// capacity would be extended in place; that case is outside the supported subset.
		base, ok := c.eval(st, call.Args[0]).(LV)
		if !ok || base.Str {
			fail("append to a value that is not a modelled slice")
		}
		if _, isBasic := base.Elem.Underlying().(*types.Basic); !isBasic {
			fail("append to a slice of %s is outside the supported subset", base.Elem)
		}
		if !sameTerm(base.Len, base.Cap) {
			fail("append to a slice with spare capacity is outside the supported subset")
		}
		baseMem := c.memTerm(st, base)
		nt := Sym(c.freshName("append"), SArr(SInt))
		q := Sym(c.freshName("q"), SInt)
		total := base.Len
		st.assume(Forall([]*Term{q}, Implies(And(Le(Num(0), q), Lt(q, base.Len)), Eq(Select(nt, q), Select(baseMem, Add(base.Off, q)))), Select(nt, q)))
		if call.Ellipsis.IsValid() {
			src, ok := c.eval(st, call.Args[1]).(LV)
			if !ok || src.Str {
				fail("append of a spread value that is not a modelled slice")
			}
			srcMem := c.memTerm(st, src)
			q2 := Sym(c.freshName("q"), SInt)
			st.assume(Forall([]*Term{q2}, Implies(And(Le(base.Len, q2), Lt(q2, Add(base.Len, src.Len))), Eq(Select(nt, q2), Select(srcMem, Add(src.Off, Sub(q2, base.Len))))), Select(nt, q2)))
			total = Add(base.Len, src.Len)
		} else {
			for k, a := range call.Args[1:] {
				v, ok := c.eval(st, a).(SV)
				if !ok {
					fail("append of a non-scalar element")
				}
				st.assume(Eq(Select(nt, Add(base.Len, Num(int64(k)))), v.T))
			}
			total = Add(base.Len, Num(int64(len(call.Args)-1)))
		}
		q3 := Sym(c.freshName("q"), SInt)
		st.assume(Forall([]*Term{q3}, And(typeFacts(Select(nt, q3), base.Elem), Implies(Or(Lt(q3, Num(0)), Ge(q3, total)), Eq(Select(nt, q3), Num(0)))), Select(nt, q3)))
		goal := Le(total, NumB(maxMake))
		c.oblige(st, "safety", "append-size "+c.exprStr(call), goal, c.eng.pos(call))
		st.assume(goal)
		cell := c.newCell(st, MV{nt, base.Elem})
		return []Val{LV{Cell: cell, Off: Num(0), Len: total, Cap: total, Elem: base.Elem, IsNil: False(), Typ: c.info.TypeOf(call)}}
	case "panic":
		fail("panic in expression position")
	case "new":
		t := c.info.TypeOf(call).Underlying().(*types.Pointer)
		cell := c.newCell(st, c.zeroVal(st, t.Elem()))
		return []Val{PV{Cell: cell, IsNil: False(), Typ: c.info.TypeOf(call)}}
	}
	fail("builtin %s", name)
	return nil
}

// Maps are modelled as two SMT arrays over the key sort: presence and value (Go map lookup semantics: a
// missing key yields the zero value and found == false).  Only map[K]int with scalar K occurs here.
func (c *FCtx) evalMapIndex(st *State, ix *ast.IndexExpr) []Val {
	m, ok := c.eval(st, ix.X).(FV)
	if !ok {
		fail("map access on a value that is not a modelled map")
	}
	k := c.eval(st, ix.Index)
	kv, ok := k.(SV)
	if !ok {
		fail("map key of kind %T (string keys must be abstract Str values)", k)
	}
	mt := m.Typ.Underlying().(*types.Map)
	has := App("select", SBool, m.Present, kv.T)
	val := Ite(has, App("select", c.sortOf(mt.Elem()), m.Value, kv.T), c.zeroTerm(mt.Elem()))
	return []Val{SV{val, mt.Elem()}, SV{has, types.Typ[types.Bool]}}
}

func (c *FCtx) mapAssign(st *State, ix *ast.IndexExpr, v Val) {
	p, ok := c.resolvePlace(st, ix.X)
	if !ok {
		fail("map assignment through a non-place")
	}
	m, ok := c.readPlace(st, p).(FV)
	if !ok {
		fail("map assignment on a value that is not a modelled map")
	}
	kv, ok := c.eval(st, ix.Index).(SV)
	if !ok {
		fail("map key kind")
	}
	nm := FV{Present: App("store", m.Present.S, m.Present, kv.T, True()), Value: App("store", m.Value.S, m.Value, kv.T, c.valToTerm(v)), Typ: m.Typ}
	c.writePlace(st, p, nm)
}
