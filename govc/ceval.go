package main

// Evaluation of contract expressions (CExpr) to symbolic values.  Contract arithmetic is
// mathematical (unbounded Int); `/` and `%` are SMT div/mod (Euclidean; identical to Go's on
// non-negative operands, which is the only way contracts use them).

import (
	"fmt"
	"go/constant"
	"go/types"
	"math/big"
	"strings"

	"golang.org/x/tools/go/packages"
)

// CV: a view (array term, offset, length) — what a slice expression denotes inside a contract.
type CV struct {
	Arr      *Term
	Off, Len *Term
	Elem     types.Type
}

// FXV: a view passed where a pure function expects a fixed-size array.
type FXV struct{ V CV }

type CEnv struct {
	idxLog *[]*Term // when non-nil: element terms produced by indexing are logged (isolated asserts abstract them)
	c      *FCtx
	names  map[string]Val
	lookup func(name string, st *State, old bool) (Val, bool)
	st     *State
	old    *State
	pkg    *packages.Package
	inOld  bool
}

func (env *CEnv) with(name string, v Val) *CEnv {
	n := *env
	n.names = map[string]Val{}
	for k, x := range env.names {
		n.names[k] = x
	}
	n.names[name] = v
	return &n
}

func (env *CEnv) state() *State {
	if env.inOld {
		return env.old
	}
	return env.st
}

func (env *CEnv) evalBool(e *CExpr) *Term {
	v := env.eval(e)
	sv, ok := v.(SV)
	if !ok || sv.T.S != SBool {
		fail("%s: contract expression %s is not boolean", e.Pos, e)
	}
	return sv.T
}

func (env *CEnv) evalInt(e *CExpr) *Term {
	v := env.eval(e)
	sv, ok := v.(SV)
	if !ok || sv.T.S != SInt {
		fail("%s: contract expression %s is not an integer", e.Pos, e)
	}
	return sv.T
}

func intSV(t *Term) SV  { return SV{t, types.Typ[types.Int]} }
func boolSV(t *Term) SV { return SV{t, types.Typ[types.Bool]} }

func (env *CEnv) eval(e *CExpr) Val {
	c := env.c
	switch e.Kind {
	case "num":
		return intSV(NumB(e.Num))
	case "str":
		return c.stringConst(env.st, e.Str, types.Typ[types.String])
	case "ident":
		return env.ident(e)
	case "old":
		n := *env
		n.inOld = true
		return freeze(n.eval(e.X), env.old)
	case "forall", "exists":
		sub := env
		var bound []*Term
		for _, v := range e.Vars {
			srt := SInt
			if i := strings.Index(v, ":"); i >= 0 {
				switch v[i+1:] {
				case "int":
				case "bool":
					srt = SBool
				case "arr":
					srt = SArr(SInt)
				case "arr2":
					srt = SArr(SArr(SInt))
				case "arr3":
					srt = SArr(SArr(SArr(SInt)))
				default:
					srt = Sort(v[i+1:])
				}
				v = v[:i]
			}
			b := Sym(c.freshName(v), srt)
			bound = append(bound, b)
			switch {
			case srt == SInt:
				sub = sub.with(v, intSV(b))
			case srt == SBool:
				sub = sub.with(v, boolSV(b))
			default:
				sub = sub.with(v, SV{b, nil})
			}
		}
		body := sub.evalBool(e.X)
		if e.Expand {
			t, ok := expandRange(bound, body, true, 80)
			if !ok {
				fail("%s: forallx needs one variable with constant bounds (at most 80 values)", e.Pos)
			}
			// the expansion is what is ASSUMED; when the clause is a GOAL the equivalent quantified form is proved instead
			// (a skolem constant matches the callees' quantified postconditions, ground indices such as 3*2 = 6 do not)
			if !e.ExpandGoal {
				variantMu.Lock()
				expandedFrom[t] = &Term{Op: "forall", S: SBool, Bound: bound, Args: []*Term{body}}
				variantMu.Unlock()
			}
			return boolSV(t)
		}
		if e.Kind == "forall" && len(e.Trig) > 0 {
			// explicit triggers from the contract: no re-indexed variants, the alternatives say how the clause is to be matched
			var alts [][]*Term
			for _, alt := range e.Trig {
				var ts []*Term
				for _, te := range alt {
					sv, ok := sub.eval(te).(SV)
					if !ok {
						fail("%s: trigger %s is not a term", e.Pos, te)
					}
					ts = append(ts, sv.T)
				}
				alts = append(alts, ts)
			}
			if body.IsTrue() {
				return boolSV(body)
			}
			return boolSV(&Term{Op: "forall", S: SBool, Bound: bound, Args: []*Term{body}, Alts: alts})
		}
		if e.Kind == "forall" {
			return boolSV(Forall(bound, body))
		}
		return boolSV(Exists(bound, body))
	case "un":
		switch e.Op {
		case "!":
			return boolSV(Not(env.evalBool(e.X)))
		case "-":
			return intSV(Neg(env.evalInt(e.X)))
		case "*":
			v := env.eval(e.X)
			pv, ok := v.(PV)
			if !ok {
				fail("%s: * applied to non-pointer in contract", e.Pos)
			}
			return env.readPV(pv, nil)
		}
	case "bin":
		return env.binary(e)
	case "field":
		if e.X.Kind == "ident" && e.X.Name == "spec" {
			if sig, ok := c.eng.spec.sigs[e.Name]; ok && len(sig.Args) == 0 {
				t := Sym(e.Name, sig.Res)
				if sig.Res == SInt {
					return intSV(t)
				}
				if sig.Res == SBool {
					return boolSV(t)
				}
				return SV{t, nil}
			}
		}
		// package-qualified constant / variable
		if e.X.Kind == "ident" {
			if _, isVal := env.tryIdent(e.X); !isVal {
				if v, ok := env.qualified(e.X.Name, e.Name); ok {
					return v
				}
			}
		}
		base := env.eval(e.X)
		return env.field(base, e.Name, e)
	case "index":
		base := env.eval(e.X)
		idx := env.evalInt(e.Y)
		return env.index(base, idx, e)
	case "slice":
		base := env.eval(e.X)
		return env.slice(base, e)
	case "call":
		return env.call(e)
	}
	fail("%s: cannot evaluate contract expression %s", e.Pos, e)
	return nil
}

func (env *CEnv) tryIdent(e *CExpr) (Val, bool) {
	if v, ok := env.names[e.Name]; ok {
		return v, true
	}
	if env.lookup != nil {
		if v, ok := env.lookup(e.Name, env.state(), env.inOld); ok {
			return v, true
		}
	}
	return nil, false
}

func (env *CEnv) ident(e *CExpr) Val {
	if v, ok := env.tryIdent(e); ok {
		return v
	}
	switch e.Name {
	case "true":
		return boolSV(True())
	case "false":
		return boolSV(False())
	case "nil":
		return nilVal{}
	}
	if v, ok := env.qualified("", e.Name); ok {
		return v
	}
	fail("%s: unknown identifier %s in contract", e.Pos, e.Name)
	return nil
}

func (env *CEnv) qualified(qual, name string) (Val, bool) {
	c := env.c
	if cv, ct, ok := c.eng.lookupConst(env.pkg, qual, name); ok {
		if tm, ok := constToTerm(cv, ct); ok {
			if tm.S == SBool {
				return boolSV(tm), true
			}
			return intSV(tm), true
		}
		if cv.Kind() == constant.String {
			return c.stringConst(env.st, constant.StringVal(cv), ct), true
		}
	}
	// package-level variable (read-only tables)
	p := env.pkg
	if qual != "" {
		p = c.eng.byName[qual]
	}
	if p != nil {
		if obj, ok := p.Types.Scope().Lookup(name).(*types.Var); ok {
			cell := c.varCell(env.st, obj)
			return env.st.cells[cell], true
		}
	}
	return nil, false
}

// freeze binds a reference value to a state: dereferences made later (inside predicates) read that state.
func freeze(v Val, st *State) Val {
	switch x := v.(type) {
	case PV:
		if x.Frozen == nil {
			x.Frozen = st
		}
		return x
	case LV:
		if x.Frozen == nil {
			x.Frozen = st
		}
		return x
	}
	return v
}

func (env *CEnv) readPV(pv PV, extra []Sel) Val {
	if pv.Frozen != nil {
		n := *env
		n.st, n.old, n.inOld = pv.Frozen, pv.Frozen, false
		pv2 := pv
		pv2.Frozen = nil
		return freeze(n.readPV(pv2, extra), pv.Frozen)
	}
	st := env.state()
	cv, ok := st.cells[pv.Cell]
	if !ok {
		// cell allocated after the old state was taken: read from the current state
		cv, ok = env.st.cells[pv.Cell]
		if !ok {
			// a nil (or dangling) pointer inside a contract: the value is unspecified
			pt, isPtr := pv.Typ.Underlying().(*types.Pointer)
			if !isPtr {
				fail("contract dereferences a pointer whose target is not in the state")
			}
			tmp := env.st.clone()
			cv = env.c.freshVal(tmp, "unspecified", pt.Elem())
			for k, v := range tmp.cells {
				if _, have := env.st.cells[k]; !have {
					env.st.cells[k] = v
				}
			}
			path := append([]Sel(nil), extra...)
			return env.c.project(cv, path)
		}
	}
	path := append(append([]Sel(nil), pv.Path...), extra...)
	return env.c.project(cv, path)
}

func (env *CEnv) field(base Val, name string, e *CExpr) Val {
	switch x := base.(type) {
	case PV:
		st, ok := x.Typ.Underlying().(*types.Pointer).Elem().Underlying().(*types.Struct)
		if !ok {
			fail("%s: field %s of pointer to non-struct", e.Pos, name)
		}
		if env.c.isOpaque(x.Typ.Underlying().(*types.Pointer).Elem()) {
			fail("%s: field %s of opaque type", e.Pos, name)
		}
		for i := 0; i < st.NumFields(); i++ {
			if st.Field(i).Name() == name {
				return env.readPV(x, []Sel{{Field: i}})
			}
		}
	case TV:
		st := x.Typ.Underlying().(*types.Struct)
		for i := 0; i < st.NumFields(); i++ {
			if st.Field(i).Name() == name {
				return x.Fs[i]
			}
		}
	}
	fail("%s: no field %s in %T", e.Pos, name, base)
	return nil
}

func (env *CEnv) memOf(lv LV) *Term {
	if lv.Frozen != nil {
		n := *env
		n.st, n.old, n.inOld = lv.Frozen, lv.Frozen, false
		lv2 := lv
		lv2.Frozen = nil
		return n.memOf(lv2)
	}
	st := env.state()
	cv, ok := st.cells[lv.Cell]
	if !ok {
		cv, ok = env.st.cells[lv.Cell]
		if !ok {
			fail("contract reads a slice whose backing store is not in the state")
		}
	}
	v := env.c.project(cv, lv.Path)
	switch x := v.(type) {
	case MV:
		return x.T
	case AV:
		return x.T
	}
	fail("slice backing store is %T", v)
	return nil
}

func (env *CEnv) index(base Val, idx *Term, e *CExpr) Val {
	v := env.index0(base, idx, e)
	if env.idxLog != nil {
		if sv, ok := v.(SV); ok && len(sv.T.Args) > 0 && sv.T.Op != "select" {
			*env.idxLog = append(*env.idxLog, sv.T)
		}
	}
	return v
}

func (env *CEnv) index0(base Val, idx *Term, e *CExpr) Val {
	c := env.c
	switch x := base.(type) {
	case AV:
		return c.termToVal(Select(x.T, idx), x.Typ.Underlying().(*types.Array).Elem())
	case LV:
		return c.termToVal(Select(env.memOf(x), Add(x.Off, idx)), x.Elem)
	case CV:
		return c.termToVal(Select(x.Arr, Add(x.Off, idx)), x.Elem)
	case PV:
		if at, ok := x.Typ.Underlying().(*types.Pointer).Elem().Underlying().(*types.Array); ok {
			_ = at
			return env.readPV(x, []Sel{{IsIdx: true, Idx: idx}})
		}
	case MV:
		return c.termToVal(Select(x.T, idx), x.Elem)
	case SV:
		if x.T.S.IsArr() {
			return SV{Select(x.T, idx), types.Typ[types.Int]}
		}
	}
	fail("%s: cannot index %T in contract", e.Pos, base)
	return nil
}

func (env *CEnv) asView(base Val, e *CExpr) CV {
	switch x := base.(type) {
	case AV:
		at := x.Typ.Underlying().(*types.Array)
		return CV{x.T, Num(0), Num(at.Len()), at.Elem()}
	case LV:
		return CV{env.memOf(x), x.Off, x.Len, x.Elem}
	case CV:
		return x
	case PV:
		if at, ok := x.Typ.Underlying().(*types.Pointer).Elem().Underlying().(*types.Array); ok {
			v := env.readPV(x, nil).(AV)
			return CV{v.T, Num(0), Num(at.Len()), at.Elem()}
		}
	case SV:
		if x.T.S.IsArr() {
			return CV{x.T, Num(0), Num(0), types.Typ[types.Int]}
		}
	}
	fail("%s: %T is not array-like in contract", e.Pos, base)
	return CV{}
}

func (env *CEnv) slice(base Val, e *CExpr) Val {
	v := env.asView(base, e)
	lo := Num(0)
	if e.Y != nil {
		lo = env.evalInt(e.Y)
	}
	hi := v.Len
	if e.Z != nil {
		hi = env.evalInt(e.Z)
	}
	return CV{v.Arr, Add(v.Off, lo), Sub(hi, lo), v.Elem}
}

func (env *CEnv) viewEq(a, b CV) *Term {
	c := env.c
	q := Sym(c.freshName("q"), SInt)
	body := Implies(And(Le(Num(0), q), Lt(q, a.Len)), c.elemEq(Select(a.Arr, Add(a.Off, q)), Select(b.Arr, Add(b.Off, q)), a.Elem))
	return And(Eq(a.Len, b.Len), Forall([]*Term{q}, body))
}

func isViewLike(v Val) bool {
	switch x := v.(type) {
	case CV, LV:
		return true
	case AV:
		return true
	case PV:
		_, ok := x.Typ.Underlying().(*types.Pointer).Elem().Underlying().(*types.Array)
		return ok
	}
	return false
}

func (env *CEnv) equal(a, b Val, e *CExpr) *Term {
	c := env.c
	if _, ok := a.(nilVal); ok {
		a, b = b, a
	}
	if _, ok := b.(nilVal); ok {
		return c.valEq(env.st, a, b, nil, nil)
	}
	if sa, ok := a.(SV); ok {
		if sb, ok := b.(SV); ok {
			return Eq(sa.T, sb.T)
		}
	}
	if ta, ok := a.(TV); ok {
		if tb, ok := b.(TV); ok {
			var cs []*Term
			for i := range ta.Fs {
				cs = append(cs, env.equal(ta.Fs[i], tb.Fs[i], e))
			}
			return And(cs...)
		}
	}
	if pa, ok := a.(PV); ok {
		if pb, ok := b.(PV); ok {
			if pa.Cell == pb.Cell && samePath(pa.Path, pb.Path) {
				return Eq(pa.IsNil, pb.IsNil)
			}
			if pa.Cell != pb.Cell {
				return And(pa.IsNil, pb.IsNil)
			}
		}
	}
	if la, ok := a.(LV); ok && la.Str {
		if lb, ok := b.(LV); ok && lb.Str {
			return env.viewEq(env.asView(la, e), env.asView(lb, e))
		}
	}
	if isViewLike(a) && isViewLike(b) {
		return env.viewEq(env.asView(a, e), env.asView(b, e))
	}
	fail("%s: cannot compare %T with %T in contract (%s)", e.Pos, a, b, e)
	return nil
}

func (env *CEnv) binary(e *CExpr) Val {
	switch e.Op {
	case "&&":
		return boolSV(And(env.evalBool(e.X), env.evalBool(e.Y)))
	case "||":
		return boolSV(Or(env.evalBool(e.X), env.evalBool(e.Y)))
	case "==>":
		return boolSV(Implies(env.evalBool(e.X), env.evalBool(e.Y)))
	case "<==>":
		return boolSV(Eq(env.evalBool(e.X), env.evalBool(e.Y)))
	case "==":
		return boolSV(env.equal(env.eval(e.X), env.eval(e.Y), e))
	case "!=":
		return boolSV(Not(env.equal(env.eval(e.X), env.eval(e.Y), e)))
	}
	l, r := env.evalInt(e.X), env.evalInt(e.Y)
	switch e.Op {
	case "<":
		return boolSV(Lt(l, r))
	case "<=":
		return boolSV(Le(l, r))
	case ">":
		return boolSV(Gt(l, r))
	case ">=":
		return boolSV(Ge(l, r))
	case "+":
		return intSV(Add(l, r))
	case "-":
		return intSV(Sub(l, r))
	case "*":
		return intSV(Mul(l, r))
	case "/":
		return intSV(Div(l, r))
	case "%":
		return intSV(Mod(l, r))
	case "<<":
		if r.IsNum() && r.Num.IsUint64() && r.Num.Uint64() < 4096 {
			return intSV(Mul(l, Pow2(uint(r.Num.Uint64()))))
		}
		return intSV(Mul(l, App("pow2", SInt, r)))
	case ">>":
		if r.IsNum() && r.Num.IsUint64() && r.Num.Uint64() < 4096 {
			return intSV(Div(l, Pow2(uint(r.Num.Uint64()))))
		}
		return intSV(Div(l, App("pow2", SInt, r)))
	case "&":
		if r.IsNum() {
			if a, b, ok := maskShape(r.Num); ok {
				return intSV(Mul(Div(Mod(l, Pow2(a+b)), Pow2(a)), Pow2(a)))
			}
		}
	}
	fail("%s: operator %s is not supported in contracts", e.Pos, e.Op)
	return nil
}

func (env *CEnv) call(e *CExpr) Val {
	c := env.c
	// spec.F(...)
	if e.X.Kind == "field" && e.X.X.Kind == "ident" && e.X.X.Name == "spec" {
		return env.specCall(e.X.Name, e)
	}
	if e.X.Kind != "ident" {
		fail("%s: unsupported call in contract: %s", e.Pos, e)
	}
	if p, ok := c.eng.cs.Preds[e.X.Name]; ok {
		if len(p.Params) != len(e.Args) {
			fail("%s: predicate %s takes %d arguments", e.Pos, p.Name, len(p.Params))
		}
		sub := *env
		sub.names = map[string]Val{}
		for k, v := range env.names {
			sub.names[k] = v
		}
		for i, a := range e.Args {
			sub.names[p.Params[i]] = env.eval(a)
		}
		return sub.eval(p.Body)
	}
	switch e.X.Name {
	case "len":
		v := env.eval(e.Args[0])
		switch x := v.(type) {
		case LV:
			return intSV(x.Len)
		case CV:
			return intSV(x.Len)
		case AV:
			return intSV(Num(x.Typ.Underlying().(*types.Array).Len()))
		case PV:
			if at, ok := x.Typ.Underlying().(*types.Pointer).Elem().Underlying().(*types.Array); ok {
				return intSV(Num(at.Len()))
			}
		}
		fail("%s: len of %T", e.Pos, v)
	case "ite":
		cnd := env.evalBool(e.Args[0])
		a, b := env.eval(e.Args[1]), env.eval(e.Args[2])
		v, ok := c.valIte(cnd, a, b)
		if !ok {
			fail("%s: ite branches of different shape", e.Pos)
		}
		return v
	case "unchanged":
		var cs []*Term
		for _, a := range e.Args {
			cur := env.eval(a)
			n := *env
			n.inOld = true
			old := n.eval(a)
			cs = append(cs, env.equal(cur, old, e))
		}
		return boolSV(And(cs...))
	case "abs":
		x := env.evalInt(e.Args[0])
		return intSV(Ite(Ge(x, Num(0)), x, Neg(x)))
	case "min":
		x, y := env.evalInt(e.Args[0]), env.evalInt(e.Args[1])
		return intSV(Ite(Le(x, y), x, y))
	case "max":
		x, y := env.evalInt(e.Args[0]), env.evalInt(e.Args[1])
		return intSV(Ite(Ge(x, y), x, y))
	case "isnil":
		v := env.eval(e.Args[0])
		switch x := v.(type) {
		case LV:
			return boolSV(x.IsNil)
		case PV:
			return boolSV(x.IsNil)
		case SV:
			if x.T.S == SBool {
				return boolSV(Not(x.T))
			}
		}
		fail("%s: isnil of %T", e.Pos, v)
	case "iserr":
		v := env.eval(e.Args[0])
		if x, ok := v.(SV); ok && x.T.S == SBool {
			return boolSV(x.T)
		}
		fail("%s: iserr of %T", e.Pos, v)
	case "abstract":
		// abstract(x): the whole value of an opaque-typed place as one term
		v := env.eval(e.Args[0])
		if pv, ok := v.(PV); ok {
			v = env.readPV(pv, nil)
		}
		if sv, ok := v.(SV); ok {
			return sv
		}
		fail("%s: abstract() of %T", e.Pos, v)
	case "strof":
		v := env.eval(e.Args[0])
		return SV{c.strOf(env.state(), v), nil}
	case "unhex":
		// unhex(s): the byte string denoted by the hex digits of the string/view s
		v := env.asView(env.eval(e.Args[0]), e)
		return CV{App("unhex", SArr(SInt), v.Arr, v.Off, v.Len), Num(0), Div(v.Len, Num(2)), types.Typ[types.Uint8]}
	case "fixed":
		// fixed(view): the view as a fixed-size array argument of a pure function
		v := env.asView(env.eval(e.Args[0]), e)
		return FXV{v}
	case "called", "ncalls":
		// ncalls("pkg.F", k): how many times the k-th call site of pkg.F (source order) has been executed on this path
		// (a ghost counter, 0 at entry); called("pkg.F", k) is ncalls >= 1
		if len(e.Args) != 2 || e.Args[0].Kind != "str" || e.Args[1].Kind != "num" {
			fail("%s: called(\"pkg.Func\", k)", e.Pos)
		}
		key := fmt.Sprintf("%s#%s", e.Args[0].Str, e.Args[1].Num.String())
		g, ok := c.ghosts[key]
		if !ok {
			fail("%s: called(%s) is only available in the exit / ensures / loop clauses of the function that makes the call", e.Pos, key)
		}
		s := env.state()
		id, ok := s.vars[g]
		if !ok {
			fail("%s: called(%s): no such call site in the state", e.Pos, key)
		}
		cnt, isSV := s.cells[id].(SV)
		if !isSV {
			fail("%s: ghost counter of %s is not an integer", e.Pos, key)
		}
		if e.X.Name == "called" {
			return boolSV(Ge(cnt.T, Num(1)))
		}
		return cnt
	case "purefn":
		// purefn("pkg.Func", "r0"|"w1", args...): the uninterpreted function that a `pure` contract attaches to
		// result/assigned-region of that function, applied to these arguments (same flattening as at call sites)
		if len(e.Args) < 2 || e.Args[0].Kind != "str" || e.Args[1].Kind != "str" {
			fail("%s: purefn(\"pkg.Func\", \"r0\", args...)", e.Pos)
		}
		key, which := e.Args[0].Str, e.Args[1].Str
		con := c.eng.cs.Funcs[key]
		if con == nil || !con.Pure {
			fail("%s: %s has no `pure` contract", e.Pos, key)
		}
		fi := c.eng.funcs[key]
		if fi == nil {
			fail("%s: %s is not a repository function", e.Pos, key)
		}
		pn := paramNames(fi, con, fi.Obj)
		if len(pn) != len(e.Args)-2 {
			fail("%s: purefn %s needs %d arguments", e.Pos, key, len(pn))
		}
		var vals []Val
		for _, a := range e.Args[2:] {
			vals = append(vals, env.eval(a))
		}
		in := []*Term{App("pack$"+key, Sort("PureIn"), c.pureInputs(env.state(), con, pn, vals)...)}
		sig := fi.Obj.Type().(*types.Signature)
		srt := SInt
		if strings.HasPrefix(which, "r") {
			var ri int
			fmt.Sscanf(which[1:], "%d", &ri)
			rt := sig.Results().At(ri).Type()
			switch {
			case isBool(rt) || isErrorType(rt):
				srt = SBool
			default:
				srt = c.sortOf(rt)
			}
		} else {
			srt = SArr(SInt)
		}
		t := App(fmt.Sprintf("pure$%s$%s", key, which), srt, in...)
		if srt == SBool {
			return boolSV(t)
		}
		if srt == SInt {
			return intSV(t)
		}
		return SV{t, nil}
	case "maphas", "mapval":
		v := env.eval(e.Args[0])
		fv, ok := v.(FV)
		if !ok {
			fail("%s: %s of a value that is not a map", e.Pos, e.X.Name)
		}
		kv, ok := env.eval(e.Args[1]).(SV)
		if !ok {
			fail("%s: map key kind", e.Pos)
		}
		mt := fv.Typ.Underlying().(*types.Map)
		if e.X.Name == "maphas" {
			return boolSV(App("select", SBool, fv.Present, kv.T))
		}
		return intSV(App("select", c.sortOf(mt.Elem()), fv.Value, kv.T))
	case "xofarr", "xoflen", "xofpos":
		v := env.eval(e.Args[0])
		xv, ok := v.(XV)
		if !ok {
			fail("%s: %s of a value that is not an XOF object", e.Pos, e.X.Name)
		}
		switch e.X.Name {
		case "xofarr":
			return SV{xv.Arr, nil}
		case "xoflen":
			return intSV(xv.Len)
		}
		return intSV(xv.RPos)
	case "store":
		a := env.eval(e.Args[0])
		var at *Term
		switch x := a.(type) {
		case SV:
			at = x.T
		case AV:
			at = x.T
		default:
			fail("%s: store on %T", e.Pos, a)
		}
		iv := env.evalInt(e.Args[1])
		vv := env.eval(e.Args[2])
		return SV{Store(at, iv, c.valToTerm(vv)), nil}
	case "arr":
		// arr(x): the SMT array term behind an array-like value (whole backing store for slices)
		v := env.asView(env.eval(e.Args[0]), e)
		return SV{v.Arr, nil}
	case "off":
		v := env.asView(env.eval(e.Args[0]), e)
		return intSV(v.Off)
	}
	fail("%s: unknown function %s in contract", e.Pos, e.X.Name)
	return nil
}

func (env *CEnv) specCall(name string, e *CExpr) Val {
	c := env.c
	sig, ok := c.eng.spec.sigs[name]
	if !ok {
		fail("%s: spec function %s is not defined in the prelude", e.Pos, name)
	}
	var args []*Term
	for _, a := range e.Args {
		v := env.eval(a)
		switch x := v.(type) {
		case SV:
			args = append(args, x.T)
		case AV:
			args = append(args, x.T)
		case MV:
			args = append(args, x.T)
		case CV:
			args = append(args, x.Arr, x.Off)
		case LV:
			args = append(args, env.memOf(x), x.Off)
		case TV:
			args = append(args, c.valToTerm(x))
		case PV:
			tv := env.readPV(x, nil)
			args = append(args, c.valToTerm(tv))
		default:
			fail("%s: cannot pass %T to spec function", e.Pos, v)
		}
	}
	if len(args) != len(sig.Args) {
		fail("%s: spec.%s expects %d SMT arguments, got %d (slices expand to array,offset)", e.Pos, name, len(sig.Args), len(args))
	}
	for i := range args {
		if args[i].S != sig.Args[i] {
			fail("%s: spec.%s argument %d has sort %s, want %s", e.Pos, name, i+1, args[i].S, sig.Args[i])
		}
	}
	t := App(name, sig.Res, args...)
	if name == "sub" && len(args) == 3 {
		t = subBytes(args[0], args[1], args[2]) // same normalisation as in the symbolic executor
	}
	if sig.Res == SBool {
		return boolSV(t)
	}
	if sig.Res == SInt {
		return intSV(t)
	}
	return SV{t, nil}
}

func bigFromString(s string) *big.Int {
	n, _ := new(big.Int).SetString(strings.TrimSpace(s), 0)
	return n
}
