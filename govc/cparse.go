package main

// Contract language: lexer + Pratt parser for expressions, and the reader for the
// `//@` comment blocks of zz_contracts_verif.go (and /verif/spec/*.contracts).

import (
	"fmt"
	"math/big"
	"os"
	"strconv"
	"strings"
)

type CExpr struct {
	Kind       string // num ident bin un call index slice field old forall exists str
	Op         string
	Name       string
	Num        *big.Int
	Str        string
	X, Y, Z    *CExpr   // operands: bin X op Y ; index X[Y]; slice X[Y:Z]; field X.Name; un Op X
	Args       []*CExpr // call args
	Vars       []string // quantifier variables
	Trig       [][]*CExpr // explicit triggers
	ExpandGoal bool     // forally: like forallx, and the expansion is also what is proved when the clause is a goal
	Expand     bool     // forallx / existsx: a bounded quantifier that must be expanded into a finite conjunction
	Pos        string
}

func (e *CExpr) String() string {
	if e == nil {
		return ""
	}
	switch e.Kind {
	case "num":
		return e.Num.String()
	case "str":
		return strconv.Quote(e.Str)
	case "ident":
		return e.Name
	case "bin":
		return "(" + e.X.String() + " " + e.Op + " " + e.Y.String() + ")"
	case "un":
		return e.Op + e.X.String()
	case "call":
		var as []string
		for _, a := range e.Args {
			as = append(as, a.String())
		}
		return e.X.String() + "(" + strings.Join(as, ", ") + ")"
	case "index":
		return e.X.String() + "[" + e.Y.String() + "]"
	case "slice":
		return e.X.String() + "[" + e.Y.String() + ":" + e.Z.String() + "]"
	case "field":
		return e.X.String() + "." + e.Name
	case "old":
		return "old(" + e.X.String() + ")"
	case "forall", "exists":
		return "(" + e.Kind + " " + strings.Join(e.Vars, ", ") + " :: " + e.X.String() + ")"
	}
	return "?"
}

type tok struct {
	k string // id num str op eof
	s string
}

func lex(src string) ([]tok, error) {
	var out []tok
	i := 0
	ops := []string{"<==>", "==>", "::", "&&", "||", "==", "!=", "<=", ">=", "<<", ">>", "&^"}
	for i < len(src) {
		c := src[i]
		if c == ' ' || c == '\t' || c == '\n' {
			i++
			continue
		}
		if c >= '0' && c <= '9' {
			j := i
			for j < len(src) && (src[j] >= '0' && src[j] <= '9' || src[j] >= 'a' && src[j] <= 'f' || src[j] >= 'A' && src[j] <= 'F' || src[j] == 'x' || src[j] == 'X' || src[j] == '_') {
				j++
			}
			out = append(out, tok{"num", src[i:j]})
			i = j
			continue
		}
		if c == '_' || c >= 'a' && c <= 'z' || c >= 'A' && c <= 'Z' {
			j := i
			for j < len(src) && (src[j] == '_' || src[j] >= 'a' && src[j] <= 'z' || src[j] >= 'A' && src[j] <= 'Z' || src[j] >= '0' && src[j] <= '9') {
				j++
			}
			out = append(out, tok{"id", src[i:j]})
			i = j
			continue
		}
		if c == '"' {
			j := i + 1
			for j < len(src) && src[j] != '"' {
				if src[j] == '\\' {
					j++
				}
				j++
			}
			if j >= len(src) {
				return nil, fmt.Errorf("unterminated string")
			}
			s, err := strconv.Unquote(src[i : j+1])
			if err != nil {
				return nil, err
			}
			out = append(out, tok{"str", s})
			i = j + 1
			continue
		}
		matched := false
		for _, o := range ops {
			if strings.HasPrefix(src[i:], o) {
				out = append(out, tok{"op", o})
				i += len(o)
				matched = true
				break
			}
		}
		if matched {
			continue
		}
		if strings.ContainsRune("+-*/%<>!&|^()[]:,.?{}", rune(c)) {
			out = append(out, tok{"op", string(c)})
			i++
			continue
		}
		return nil, fmt.Errorf("unexpected character %q in %q", c, src)
	}
	out = append(out, tok{"eof", ""})
	return out, nil
}

type cparser struct {
	toks []tok
	p    int
	pos  string
}

func (p *cparser) peek() tok { return p.toks[p.p] }
func (p *cparser) next() tok { t := p.toks[p.p]; p.p++; return t }
func (p *cparser) isOp(s string) bool {
	t := p.peek()
	return t.k == "op" && t.s == s
}
func (p *cparser) expectOp(s string) error {
	if !p.isOp(s) {
		return fmt.Errorf("%s: expected %q, got %q", p.pos, s, p.peek().s)
	}
	p.next()
	return nil
}

func ParseCExpr(src, pos string) (*CExpr, error) {
	toks, err := lex(src)
	if err != nil {
		return nil, fmt.Errorf("%s: %v", pos, err)
	}
	p := &cparser{toks: toks, pos: pos}
	e, err := p.parseTop()
	if err != nil {
		return nil, err
	}
	if p.peek().k != "eof" {
		return nil, fmt.Errorf("%s: trailing tokens at %q in %q", pos, p.peek().s, src)
	}
	return e, nil
}

// top: quantifier | iff
func (p *cparser) parseTop() (*CExpr, error) {
	t := p.peek()
	if t.k == "id" && (t.s == "forall" || t.s == "exists" || t.s == "forallx" || t.s == "forally") {
		p.next()
		var vars []string
		for {
			v := p.next()
			if v.k != "id" {
				return nil, fmt.Errorf("%s: quantifier variable expected", p.pos)
			}
			name := v.s
			if p.isOp(":") {
				p.next()
				ty := p.next()
				if ty.k != "id" {
					return nil, fmt.Errorf("%s: sort name expected after ':'", p.pos)
				}
				name += ":" + ty.s
			}
			vars = append(vars, name)
			if p.isOp(",") {
				p.next()
				continue
			}
			break
		}
		// optional Dafny-style triggers: `forall i, q {A[32*i+q]} {f(i)[q]} :: body` — alternative (multi-)patterns
		var trig [][]*CExpr
		for p.isOp("{") {
			p.next()
			var alt []*CExpr
			for {
				te, err := p.parseIff()
				if err != nil {
					return nil, err
				}
				alt = append(alt, te)
				if p.isOp(",") {
					p.next()
					continue
				}
				break
			}
			if err := p.expectOp("}"); err != nil {
				return nil, err
			}
			trig = append(trig, alt)
		}
		if err := p.expectOp("::"); err != nil {
			return nil, err
		}
		body, err := p.parseTop()
		if err != nil {
			return nil, err
		}
		if len(trig) > 0 {
			return &CExpr{Kind: t.s, Vars: vars, X: body, Pos: p.pos, Trig: trig}, nil
		}
		if t.s == "forallx" {
			return &CExpr{Kind: "forall", Vars: vars, X: body, Pos: p.pos, Expand: true}, nil
		}
		if t.s == "forally" {
			return &CExpr{Kind: "forall", Vars: vars, X: body, Pos: p.pos, Expand: true, ExpandGoal: true}, nil
		}
		return &CExpr{Kind: t.s, Vars: vars, X: body, Pos: p.pos}, nil
	}
	return p.parseIff()
}

func (p *cparser) parseIff() (*CExpr, error) {
	l, err := p.parseImp()
	if err != nil {
		return nil, err
	}
	for p.isOp("<==>") {
		p.next()
		r, err := p.parseImp()
		if err != nil {
			return nil, err
		}
		l = &CExpr{Kind: "bin", Op: "<==>", X: l, Y: r, Pos: p.pos}
	}
	return l, nil
}

func (p *cparser) parseImp() (*CExpr, error) {
	l, err := p.parseOr()
	if err != nil {
		return nil, err
	}
	if p.isOp("==>") {
		p.next()
		// right associative; the consequent may itself be a quantifier
		var r *CExpr
		t := p.peek()
		if t.k == "id" && (t.s == "forall" || t.s == "exists" || t.s == "forallx" || t.s == "forally") {
			r, err = p.parseTop()
		} else {
			r, err = p.parseImp()
		}
		if err != nil {
			return nil, err
		}
		return &CExpr{Kind: "bin", Op: "==>", X: l, Y: r, Pos: p.pos}, nil
	}
	return l, nil
}

func (p *cparser) parseOr() (*CExpr, error) {
	l, err := p.parseAnd()
	if err != nil {
		return nil, err
	}
	for p.isOp("||") {
		p.next()
		r, err := p.parseAnd()
		if err != nil {
			return nil, err
		}
		l = &CExpr{Kind: "bin", Op: "||", X: l, Y: r, Pos: p.pos}
	}
	return l, nil
}

func (p *cparser) parseAnd() (*CExpr, error) {
	l, err := p.parseCmp()
	if err != nil {
		return nil, err
	}
	for p.isOp("&&") {
		p.next()
		var r *CExpr
		t := p.peek()
		if t.k == "id" && (t.s == "forall" || t.s == "exists" || t.s == "forallx" || t.s == "forally") {
			r, err = p.parseTop()
		} else {
			r, err = p.parseCmp()
		}
		if err != nil {
			return nil, err
		}
		l = &CExpr{Kind: "bin", Op: "&&", X: l, Y: r, Pos: p.pos}
	}
	return l, nil
}

func isCmp(s string) bool {
	return s == "==" || s == "!=" || s == "<" || s == "<=" || s == ">" || s == ">="
}

// comparisons may be chained: a <= b < c  means  a <= b && b < c
func (p *cparser) parseCmp() (*CExpr, error) {
	l, err := p.parseAddv()
	if err != nil {
		return nil, err
	}
	var res *CExpr
	for p.peek().k == "op" && isCmp(p.peek().s) {
		op := p.next().s
		r, err := p.parseAddv()
		if err != nil {
			return nil, err
		}
		c := &CExpr{Kind: "bin", Op: op, X: l, Y: r, Pos: p.pos}
		if res == nil {
			res = c
		} else {
			res = &CExpr{Kind: "bin", Op: "&&", X: res, Y: c, Pos: p.pos}
		}
		l = r
	}
	if res != nil {
		return res, nil
	}
	return l, nil
}

func (p *cparser) parseAddv() (*CExpr, error) {
	l, err := p.parseMul()
	if err != nil {
		return nil, err
	}
	for p.peek().k == "op" && (p.peek().s == "+" || p.peek().s == "-" || p.peek().s == "|" || p.peek().s == "^") {
		op := p.next().s
		r, err := p.parseMul()
		if err != nil {
			return nil, err
		}
		l = &CExpr{Kind: "bin", Op: op, X: l, Y: r, Pos: p.pos}
	}
	return l, nil
}

func (p *cparser) parseMul() (*CExpr, error) {
	l, err := p.parseUnary()
	if err != nil {
		return nil, err
	}
	for p.peek().k == "op" && (p.peek().s == "*" || p.peek().s == "/" || p.peek().s == "%" || p.peek().s == "<<" || p.peek().s == ">>" || p.peek().s == "&") {
		op := p.next().s
		r, err := p.parseUnary()
		if err != nil {
			return nil, err
		}
		l = &CExpr{Kind: "bin", Op: op, X: l, Y: r, Pos: p.pos}
	}
	return l, nil
}

func (p *cparser) parseUnary() (*CExpr, error) {
	if p.peek().k == "op" && (p.peek().s == "!" || p.peek().s == "-" || p.peek().s == "*") {
		op := p.next().s
		x, err := p.parseUnary()
		if err != nil {
			return nil, err
		}
		return &CExpr{Kind: "un", Op: op, X: x, Pos: p.pos}, nil
	}
	return p.parsePostfix()
}

func (p *cparser) parsePostfix() (*CExpr, error) {
	x, err := p.parsePrimary()
	if err != nil {
		return nil, err
	}
	for {
		switch {
		case p.isOp("."):
			p.next()
			t := p.next()
			if t.k != "id" {
				return nil, fmt.Errorf("%s: field name expected", p.pos)
			}
			x = &CExpr{Kind: "field", X: x, Name: t.s, Pos: p.pos}
		case p.isOp("["):
			p.next()
			var lo, hi *CExpr
			if !p.isOp(":") {
				lo, err = p.parseTop()
				if err != nil {
					return nil, err
				}
			}
			if p.isOp(":") {
				p.next()
				if !p.isOp("]") {
					hi, err = p.parseTop()
					if err != nil {
						return nil, err
					}
				}
				if err := p.expectOp("]"); err != nil {
					return nil, err
				}
				x = &CExpr{Kind: "slice", X: x, Y: lo, Z: hi, Pos: p.pos}
			} else {
				if err := p.expectOp("]"); err != nil {
					return nil, err
				}
				x = &CExpr{Kind: "index", X: x, Y: lo, Pos: p.pos}
			}
		case p.isOp("("):
			p.next()
			var args []*CExpr
			for !p.isOp(")") {
				a, err := p.parseTop()
				if err != nil {
					return nil, err
				}
				args = append(args, a)
				if p.isOp(",") {
					p.next()
				} else {
					break
				}
			}
			if err := p.expectOp(")"); err != nil {
				return nil, err
			}
			if x.Kind == "ident" && x.Name == "old" && len(args) == 1 {
				x = &CExpr{Kind: "old", X: args[0], Pos: p.pos}
			} else {
				x = &CExpr{Kind: "call", X: x, Args: args, Pos: p.pos}
			}
		default:
			return x, nil
		}
	}
}

func (p *cparser) parsePrimary() (*CExpr, error) {
	t := p.next()
	switch t.k {
	case "num":
		s := strings.ReplaceAll(t.s, "_", "")
		n, ok := new(big.Int).SetString(s, 0)
		if !ok {
			return nil, fmt.Errorf("%s: bad number %q", p.pos, t.s)
		}
		return &CExpr{Kind: "num", Num: n, Pos: p.pos}, nil
	case "str":
		return &CExpr{Kind: "str", Str: t.s, Pos: p.pos}, nil
	case "id":
		if t.s == "forall" || t.s == "exists" || t.s == "forallx" || t.s == "forally" {
			p.p--
			return p.parseTop()
		}
		return &CExpr{Kind: "ident", Name: t.s, Pos: p.pos}, nil
	case "op":
		if t.s == "(" {
			e, err := p.parseTop()
			if err != nil {
				return nil, err
			}
			if err := p.expectOp(")"); err != nil {
				return nil, err
			}
			return e, nil
		}
	}
	return nil, fmt.Errorf("%s: unexpected token %q", p.pos, t.s)
}

// ---- contract blocks -------------------------------------------------------------------------

type Clause struct {
	Tags       []string // property ids; empty = structural, visible to every property
	E          *CExpr
	Src        string
	Pos        string
	Name       string // optional label
	From       []int  // loop asserts: prove from these earlier asserts of the same loop only (isolated cut)
	FromAxioms bool   // ... plus the axiom instances about bit-operation terms that occur (`from 1 +axioms`)
}

func (c *Clause) visible(prop string) bool {
	if len(c.Tags) == 0 || prop == "" || prop == "*" {
		return true
	}
	for _, t := range c.Tags {
		if t == prop {
			return true
		}
	}
	return false
}

type PanicClause struct {
	Msg  string
	When *Clause
}

type LoopSpec struct {
	Asserts     []*Clause // proved at the end of the loop body (before the post statement), then assumed
	Invs        []*Clause
	Decreases   *Clause
	DeadBody    bool // `loop N deadbody`: the loop is reached with a false guard (body is dead code); proved at the loop
	Unreachable bool // `loop N unreachable`: the loop head itself must be unreachable (dead branch)
	AssumeTerm  bool // decreases _
}

type AssignItem struct {
	E   *CExpr // place expression: *p, p.f, s[lo:hi], s, x.f[lo:hi]
	Src string
}

type Contract struct {
	Key        string // pkgname.Func or pkgname.Type.Method
	Props      []string
	Requires   []*Clause
	Ensures    []*Clause
	Exits      []*Clause // internal postconditions: checked at every return over the function's locals, never assumed by callers
	Assigns    []AssignItem
	Loops      map[int]*LoopSpec
	Aliases    [][2]string
	Inline     bool
	Trusted    string
	Panics     []*PanicClause
	NoOverflow bool
	Pure       bool
	Opaque     []string // type names treated abstractly inside this function
	Pos        string
	File       string
	External   bool     // from /verif/spec extern file (assumed contract on a dependency)
	Results    []string // names for results of external functions
	Params     []string // parameter names for external functions
	Asserts    []*Clause
	Fresh      []string // results / places declared fresh (not aliasing any input)
	MaybeNil   []string
	Uses       []string             // lemmas (by name) assumed as hypotheses inside this function
	UsesLate   []string             // lemmas assumed only at the returns
	AliasSame  map[string]bool      // "a|b": aliased slices a and b start at the same element when they share memory
	Returns    map[int][]*Clause    // k -> conditions that hold whenever the k-th return statement is reached
	Gotos      map[string][]*Clause // "label#k" -> conditions under which the k-th goto to label may be taken
	Afters     map[string][]*Clause // "pkg.F#k" -> assertions proved (then assumed) right after the block-level statement containing the k-th call of pkg.F
	Names      []string             // `names a b | r | x y`: the declared variables (receiver+params | named results | locals, declaration order) when the contract was written
	NamesType  []string             // ... their types (spaces removed), "" if not recorded
	LoopFP     []string             // ... fingerprints of the function's loops in the order they had (4th group of the names clause)
	NamesTag   []string             // ... their loop role (see FuncInfo.DeclTag), "" if none
	NamesIn    int                  // ... how many of them are receiver+parameters
	NamesOut   int                  // ... and named results
	Quiet      []string             // lemma functions: callees whose postconditions are NOT assumed at their call sites (frames still apply); dropping hypotheses is sound and keeps product-program VCs small
	Reveal     []string             // `reveal spec.x`: prelude axioms annotated `;@ needs x` are shipped with this function's VCs (x need not be a declared symbol)
	Hide       []string             // spec functions whose defining axioms (`;@ defines f` in the prelude) are not shipped with this function's VCs
	Inlines    []string             // lemma functions: callees to execute by their bodies although they have contracts
	Unrolls    map[string]int       // "pkg.Func#loop" -> max iterations (lemma functions: unroll instead of cutting at invariants)
	Reads      map[string][2]int64  // `reads p[lo:hi]`: the function depends on parameter p only through p[lo:hi]
	Used       bool
}

type Lemma struct {
	Uses   []string // other lemmas assumed while proving this one (`lemma NAME [induction n] uses A,B : ...`); no cycles
	Induct string   // `lemma NAME induction n : forall n, xs :: body` — proved by induction on n >= 0
	Name   string
	Tags   []string
	E      *CExpr
	Src    string
	Pos    string
}

type Pred struct {
	Name   string
	Params []string
	Body   *CExpr
	Pos    string
}

type ContractSet struct {
	Preds  map[string]*Pred
	Funcs  map[string]*Contract
	Lemmas []*Lemma
	Opaque map[string]bool // package-wide opaque types "pkg.Type"
	Files  []string
}

var clauseKeywords = map[string]bool{
	"func": true, "props": true, "requires": true, "ensures": true, "assigns": true, "loop": true, "alias": true,
	"inline": true, "trusted": true, "panics": true, "nooverflow": true, "lemma": true, "pure": true, "opaque": true,
	"extern": true, "assert": true, "fresh": true, "maybenil": true, "package": true, "pred": true, "tagset": true, "aset": true, "reads": true, "inlines": true, "unroll": true, "exit": true, "use": true, "hide": true, "after": true, "uselate": true, "goto": true, "return": true, "reveal": true, "names": true, "quiet": true,
}

// assignSets: `//@ aset name := $.f, $.g[0:4]` — a reusable list of assigns items, `$` is the argument.
type assignSet struct{ items []string }

var assignSets = map[string]assignSet{}

// tagSets: named groups of property ids (`//@ tagset DIL := C12 C03 C05 C07`), expanded inside [..].
var tagSets = map[string][]string{}

func splitTags(word string) (string, []string) {
	if i := strings.Index(word, "["); i >= 0 && strings.HasSuffix(word, "]") {
		var tags []string
		for _, t := range strings.Split(word[i+1:len(word)-1], ",") {
			t = strings.TrimSpace(t)
			if set, ok := tagSets[t]; ok {
				tags = append(tags, set...)
			} else {
				tags = append(tags, t)
			}
		}
		return word[:i], tags
	}
	return word, nil
}

// ReadContracts parses one file. pkgName is prepended to function names that have no package
// qualifier ("decompose" -> "dilithium.decompose").
func (cs *ContractSet) ReadFile(path, pkgName string, external bool) error {
	data, err := os.ReadFile(path)
	if err != nil {
		return err
	}
	cs.Files = append(cs.Files, path)
	// gather logical lines
	type lline struct {
		text string
		pos  string
	}
	var lines []lline
	for n, raw := range strings.Split(string(data), "\n") {
		s := strings.TrimSpace(raw)
		if !strings.HasPrefix(s, "//@") {
			continue
		}
		s = strings.TrimSpace(strings.TrimPrefix(s, "//@"))
		if s == "" || strings.HasPrefix(s, "#") {
			continue
		}
		first := s
		if i := strings.IndexAny(s, " \t"); i >= 0 {
			first = s[:i]
		}
		kw, _ := splitTags(first)
		if !clauseKeywords[kw] && len(lines) > 0 {
			lines[len(lines)-1].text += " " + s
			continue
		}
		lines = append(lines, lline{s, fmt.Sprintf("%s:%d", path, n+1)})
	}
	var cur *Contract
	for _, l := range lines {
		word, rest := l.text, ""
		if i := strings.IndexAny(l.text, " \t"); i >= 0 {
			word, rest = l.text[:i], strings.TrimSpace(l.text[i+1:])
		}
		kw, tags := splitTags(word)
		mk := func(src string) (*Clause, error) {
			e, err := ParseCExpr(src, l.pos)
			if err != nil {
				return nil, err
			}
			return &Clause{Tags: tags, E: e, Src: src, Pos: l.pos}, nil
		}
		switch kw {
		case "package":
			pkgName = rest
		case "aset":
			i := strings.Index(rest, ":=")
			if i < 0 {
				return fmt.Errorf("%s: aset NAME := $.f, ...", l.pos)
			}
			var as assignSet
			for _, it := range splitTopLevel(rest[i+2:], ',') {
				if it = strings.TrimSpace(it); it != "" {
					as.items = append(as.items, it)
				}
			}
			assignSets[strings.TrimSpace(rest[:i])] = as
		case "tagset":
			i := strings.Index(rest, ":=")
			if i < 0 {
				return fmt.Errorf("%s: tagset NAME := C01 C02 ...", l.pos)
			}
			tagSets[strings.TrimSpace(rest[:i])] = strings.Fields(rest[i+2:])
		case "pred":
			// pred name(a, b) := expr
			i := strings.Index(rest, ":=")
			j := strings.Index(rest, "(")
			k := strings.Index(rest, ")")
			if i < 0 || j < 0 || k < j || k > i {
				return fmt.Errorf("%s: pred name(params) := expr", l.pos)
			}
			p := &Pred{Name: strings.TrimSpace(rest[:j]), Pos: l.pos}
			for _, a := range strings.Split(rest[j+1:k], ",") {
				if a = strings.TrimSpace(a); a != "" {
					p.Params = append(p.Params, a)
				}
			}
			body, err := ParseCExpr(rest[i+2:], l.pos)
			if err != nil {
				return err
			}
			p.Body = body
			cs.Preds[p.Name] = p
			cur = nil
		case "func", "extern":
			name := rest
			var params, results []string
			if i := strings.Index(rest, "("); i >= 0 {
				// extern pkg.F(a, b) (r0, r1)
				name = strings.TrimSpace(rest[:i])
				j := strings.Index(rest, ")")
				if j < 0 {
					return fmt.Errorf("%s: bad signature", l.pos)
				}
				for _, p := range strings.Split(rest[i+1:j], ",") {
					if p = strings.TrimSpace(p); p != "" {
						params = append(params, p)
					}
				}
				tail := strings.TrimSpace(rest[j+1:])
				tail = strings.Trim(tail, "()")
				for _, p := range strings.Split(tail, ",") {
					if p = strings.TrimSpace(p); p != "" {
						results = append(results, p)
					}
				}
			}
			if kw == "func" && !strings.Contains(strings.TrimPrefix(name, "("), ".") || kw == "func" && strings.Count(name, ".") == 1 && isTypeMethod(name) {
				name = pkgName + "." + name
			}
			cur = &Contract{Key: name, Loops: map[int]*LoopSpec{}, Pos: l.pos, File: path, External: external || kw == "extern", Params: params, Results: results}
			if _, dup := cs.Funcs[name]; dup {
				return fmt.Errorf("%s: duplicate contract for %s", l.pos, name)
			}
			cs.Funcs[name] = cur
		case "lemma":
			i := strings.Index(rest, ":")
			if i < 0 {
				return fmt.Errorf("%s: lemma needs 'name : expr'", l.pos)
			}
			e, err := ParseCExpr(rest[i+1:], l.pos)
			if err != nil {
				return err
			}
			head := strings.Fields(strings.TrimSpace(rest[:i]))
			induct := ""
			var luses []string
			for k := 1; k+1 < len(head); k += 2 {
				switch head[k] {
				case "induction":
					induct = head[k+1]
				case "uses":
					luses = strings.Split(head[k+1], ",")
				}
			}
			lname, ltags := splitTags(head[0])
			if ltags == nil {
				ltags = tags
			}
			cs.Lemmas = append(cs.Lemmas, &Lemma{Name: lname, Tags: ltags, E: e, Src: strings.TrimSpace(rest[i+1:]), Pos: l.pos, Induct: induct, Uses: luses})
			cur = nil
		case "opaque":
			if cur == nil {
				for _, t := range strings.Fields(rest) {
					if !strings.Contains(t, ".") {
						t = pkgName + "." + t
					}
					cs.Opaque[t] = true
				}
			} else {
				cur.Opaque = append(cur.Opaque, strings.Fields(rest)...)
			}
		default:
			if cur == nil {
				return fmt.Errorf("%s: clause %q outside a func block", l.pos, kw)
			}
			switch kw {
			case "props":
				for _, p := range strings.Fields(strings.ReplaceAll(rest, ",", " ")) {
					if set, ok := tagSets[p]; ok {
						cur.Props = append(cur.Props, set...)
					} else {
						cur.Props = append(cur.Props, p)
					}
				}
			case "requires":
				c, err := mk(rest)
				if err != nil {
					return err
				}
				cur.Requires = append(cur.Requires, c)
			case "ensures":
				c, err := mk(rest)
				if err != nil {
					return err
				}
				cur.Ensures = append(cur.Ensures, c)
			case "exit":
				c, err := mk(rest)
				if err != nil {
					return err
				}
				cur.Exits = append(cur.Exits, c)
			case "assert":
				c, err := mk(rest)
				if err != nil {
					return err
				}
				cur.Asserts = append(cur.Asserts, c)
			case "return":
				// return <k> assert[tags] expr
				f := strings.Fields(rest)
				if len(f) < 3 || !strings.HasPrefix(f[1], "assert") {
					return fmt.Errorf("%s: return needs 'k assert[tags] expr'", l.pos)
				}
				rk, err := strconv.Atoi(f[0])
				if err != nil {
					return fmt.Errorf("%s: return ordinal: %v", l.pos, err)
				}
				ri := strings.Index(rest, f[1])
				_, rtags := splitTags(f[1])
				rbody := strings.TrimSpace(rest[ri+len(f[1]):])
				re, err := ParseCExpr(rbody, l.pos)
				if err != nil {
					return err
				}
				if cur.Returns == nil {
					cur.Returns = map[int][]*Clause{}
				}
				cur.Returns[rk] = append(cur.Returns[rk], &Clause{Tags: rtags, E: re, Src: rbody, Pos: l.pos})
			case "goto":
				// goto <label> <k> assert[tags] expr
				f := strings.Fields(rest)
				if len(f) < 4 || !strings.HasPrefix(f[2], "assert") {
					return fmt.Errorf("%s: goto needs 'label k assert[tags] expr'", l.pos)
				}
				gi := strings.Index(rest, f[2])
				_, gtags := splitTags(f[2])
				gbody := strings.TrimSpace(rest[gi+len(f[2]):])
				ge, err := ParseCExpr(gbody, l.pos)
				if err != nil {
					return err
				}
				if cur.Gotos == nil {
					cur.Gotos = map[string][]*Clause{}
				}
				gk := f[0] + "#" + f[1]
				cur.Gotos[gk] = append(cur.Gotos[gk], &Clause{Tags: gtags, E: ge, Src: gbody, Pos: l.pos})
			case "after":
				// after pkg.F k assert[tags] expr
				f := strings.Fields(rest)
				if len(f) < 4 || !strings.HasPrefix(f[2], "assert") {
					return fmt.Errorf("%s: after needs 'pkg.F k assert[tags] expr'", l.pos)
				}
				callee := f[0]
				if !strings.Contains(callee, ".") && callee != "if" { // `after if k`: the k-th block-level if statement
					callee = pkgName + "." + callee
				}
				i := strings.Index(rest, f[2])
				_, atags := splitTags(f[2])
				body := strings.TrimSpace(rest[i+len(f[2]):])
				// optional ` from a..b`: prove this assertion from the listed earlier assertions of the same anchor only
				var afrom []int
				if j := strings.LastIndex(body, " from "); j >= 0 {
					if a, b, found := strings.Cut(strings.TrimSpace(body[j+6:]), ".."); found {
						x, e1 := strconv.Atoi(strings.TrimSpace(a))
						y, e2 := strconv.Atoi(strings.TrimSpace(b))
						if e1 == nil && e2 == nil {
							for q := x; q <= y; q++ {
								afrom = append(afrom, q)
							}
							body = strings.TrimSpace(body[:j])
						}
					}
				}
				e, err := ParseCExpr(body, l.pos)
				if err != nil {
					return err
				}
				if cur.Afters == nil {
					cur.Afters = map[string][]*Clause{}
				}
				k := callee + "#" + f[1]
				cur.Afters[k] = append(cur.Afters[k], &Clause{Tags: atags, E: e, Src: body, Pos: l.pos, From: afrom})
			case "assigns":
				items := splitTopLevel(rest, ',')
				for k := 0; k < len(items); k++ {
					item := strings.TrimSpace(items[k])
					if item == "" || item == "nothing" {
						continue
					}
					// assign-set macro: name(arg)
					if i := strings.Index(item, "("); i > 0 && strings.HasSuffix(item, ")") {
						if as, ok := assignSets[item[:i]]; ok {
							arg := strings.TrimSpace(item[i+1 : len(item)-1])
							for _, m := range as.items {
								items = append(items, strings.ReplaceAll(m, "$", arg))
							}
							continue
						}
					}
					e, err := ParseCExpr(item, l.pos)
					if err != nil {
						return err
					}
					cur.Assigns = append(cur.Assigns, AssignItem{E: e, Src: item})
				}
			case "loop":
				f := strings.Fields(rest)
				if len(f) == 2 && f[1] == "unreachable" {
					n, err := strconv.Atoi(f[0])
					if err != nil {
						return fmt.Errorf("%s: loop ordinal: %v", l.pos, err)
					}
					if cur.Loops[n] == nil {
						cur.Loops[n] = &LoopSpec{}
					}
					cur.Loops[n].Unreachable = true
					continue
				}
				if len(f) == 2 && f[1] == "deadbody" {
					n, err := strconv.Atoi(f[0])
					if err != nil {
						return fmt.Errorf("%s: loop ordinal: %v", l.pos, err)
					}
					if cur.Loops[n] == nil {
						cur.Loops[n] = &LoopSpec{}
					}
					cur.Loops[n].DeadBody = true
					continue
				}
				if len(f) < 3 {
					return fmt.Errorf("%s: loop <n> invariant|decreases <expr>", l.pos)
				}
				n, err := strconv.Atoi(f[0])
				if err != nil {
					return fmt.Errorf("%s: loop ordinal: %v", l.pos, err)
				}
				ls := cur.Loops[n]
				if ls == nil {
					ls = &LoopSpec{}
					cur.Loops[n] = ls
				}
				k2, t2 := splitTags(f[1])
				body := strings.TrimSpace(strings.SplitN(rest, f[1], 2)[1])
				switch k2 {
				case "invariant":
					e, err := ParseCExpr(body, l.pos)
					if err != nil {
						return err
					}
					ls.Invs = append(ls.Invs, &Clause{Tags: t2, E: e, Src: body, Pos: l.pos})
				case "assert":
					var from []int
					withAx := false
					if i := strings.LastIndex(body, " from "); i >= 0 {
						spec := strings.TrimSpace(body[i+6:])
						okSpec := true
						if strings.HasSuffix(spec, "+axioms") {
							withAx = true
							spec = strings.TrimSpace(strings.TrimSuffix(spec, "+axioms"))
						}
						for _, part := range strings.Split(spec, ",") {
							part = strings.TrimSpace(part)
							if a, b, found := strings.Cut(part, ".."); found {
								x, e1 := strconv.Atoi(a)
								y, e2 := strconv.Atoi(b)
								if e1 != nil || e2 != nil {
									okSpec = false
									break
								}
								for k := x; k <= y; k++ {
									from = append(from, k)
								}
							} else if x, e1 := strconv.Atoi(part); e1 == nil {
								from = append(from, x)
							} else {
								okSpec = false
								break
							}
						}
						if okSpec {
							body = strings.TrimSpace(body[:i])
						} else {
							from = nil
						}
					}
					e, err := ParseCExpr(body, l.pos)
					if err != nil {
						return err
					}
					ls.Asserts = append(ls.Asserts, &Clause{Tags: t2, E: e, Src: body, Pos: l.pos, From: from, FromAxioms: withAx})
				case "decreases":
					if body == "_" {
						ls.AssumeTerm = true
					} else {
						e, err := ParseCExpr(body, l.pos)
						if err != nil {
							return err
						}
						ls.Decreases = &Clause{E: e, Src: body, Pos: l.pos}
					}
				default:
					return fmt.Errorf("%s: unknown loop clause %q", l.pos, f[1])
				}
			case "use":
				cur.Uses = append(cur.Uses, strings.Fields(strings.ReplaceAll(rest, ",", " "))...)
			case "uselate":
				// like `use`, but the lemma becomes a hypothesis only at the return statements (for exit / ensures clauses)
				cur.UsesLate = append(cur.UsesLate, strings.Fields(strings.ReplaceAll(rest, ",", " "))...)
			case "hide":
				cur.Hide = append(cur.Hide, strings.Fields(strings.ReplaceAll(rest, ",", " "))...)
			case "names":
				groups := strings.Split(rest, "|")
				cur.Names, cur.NamesType, cur.NamesTag = nil, nil, nil
				cur.LoopFP = nil
				for gi, g := range groups {
					fs := strings.Fields(g)
					if gi == 3 {
						cur.LoopFP = fs
						continue
					}
					if gi == 0 {
						cur.NamesIn = len(fs)
					}
					if gi == 1 {
						cur.NamesOut = len(fs)
					}
					for _, f := range fs {
						// name[:type][@looprole]
						tagS, typS := "", ""
						if i := strings.LastIndex(f, "@"); i >= 0 {
							f, tagS = f[:i], f[i+1:]
						}
						if i := strings.Index(f, ":"); i >= 0 {
							f, typS = f[:i], f[i+1:]
						}
						cur.Names = append(cur.Names, f)
						cur.NamesType = append(cur.NamesType, typS)
						cur.NamesTag = append(cur.NamesTag, tagS)
					}
				}
			case "quiet":
				cur.Quiet = append(cur.Quiet, strings.Fields(strings.ReplaceAll(rest, ",", " "))...)
			case "reveal":
				cur.Reveal = append(cur.Reveal, strings.Fields(strings.ReplaceAll(rest, ",", " "))...)
			case "inlines":
				cur.Inlines = append(cur.Inlines, strings.Fields(strings.ReplaceAll(rest, ",", " "))...)
			case "unroll":
				// unroll pkg.Func <loop> <max>
				f := strings.Fields(rest)
				if len(f) != 3 {
					return fmt.Errorf("%s: unroll pkg.Func <loop ordinal> <max iterations>", l.pos)
				}
				n, err := strconv.Atoi(f[2])
				if err != nil {
					return err
				}
				if cur.Unrolls == nil {
					cur.Unrolls = map[string]int{}
				}
				cur.Unrolls[f[0]+"#"+f[1]] = n
			case "reads":
				// reads p[lo:hi]
				var name string
				var lo, hi int64
				if _, err := fmt.Sscanf(strings.ReplaceAll(strings.ReplaceAll(strings.ReplaceAll(rest, "[", " "), ":", " "), "]", " "), "%s %d %d", &name, &lo, &hi); err != nil {
					return fmt.Errorf("%s: reads p[lo:hi] with constant bounds", l.pos)
				}
				if cur.Reads == nil {
					cur.Reads = map[string][2]int64{}
				}
				cur.Reads[name] = [2]int64{lo, hi}
			case "alias":
				f := strings.Fields(rest)
				if len(f) == 3 && f[2] == "same" {
					// `alias a b same`: when the two slices share memory they start at the same element
					// (call sites prove: disjoint, or equal offsets); the alias variant is verified with equal offsets
					if cur.AliasSame == nil {
						cur.AliasSame = map[string]bool{}
					}
					cur.AliasSame[f[0]+"|"+f[1]] = true
					cur.AliasSame[f[1]+"|"+f[0]] = true
					f = f[:2]
				}
				if len(f) != 2 {
					return fmt.Errorf("%s: alias a b [same]", l.pos)
				}
				cur.Aliases = append(cur.Aliases, [2]string{f[0], f[1]})
			case "inline":
				cur.Inline = true
			case "trusted":
				cur.Trusted = strings.Trim(rest, "\"")
				if cur.Trusted == "" {
					cur.Trusted = "unspecified"
				}
			case "nooverflow":
				cur.NoOverflow = true
			case "pure":
				cur.Pure = true
			case "fresh":
				cur.Fresh = append(cur.Fresh, strings.Fields(strings.ReplaceAll(rest, ",", " "))...)
			case "maybenil":
				cur.MaybeNil = append(cur.MaybeNil, strings.Fields(strings.ReplaceAll(rest, ",", " "))...)
			case "panics":
				// panics "msg" when <expr>
				toks, err := lex(rest)
				if err != nil || len(toks) < 1 || toks[0].k != "str" {
					return fmt.Errorf("%s: panics \"msg\" [when expr]", l.pos)
				}
				pc := &PanicClause{Msg: toks[0].s}
				if i := strings.Index(rest, " when "); i >= 0 {
					c, err := mk(rest[i+6:])
					if err != nil {
						return err
					}
					pc.When = c
				}
				cur.Panics = append(cur.Panics, pc)
			default:
				return fmt.Errorf("%s: unknown clause %q", l.pos, kw)
			}
		}
	}
	return nil
}

func isTypeMethod(name string) bool {
	// "XMSS.Sign" -> Type.Method when first segment starts with an upper-case letter or is a known
	// receiver; a package qualifier is always lower-case in this repository.
	seg := name[:strings.Index(name, ".")]
	return seg != "" && seg[0] >= 'A' && seg[0] <= 'Z' || seg == "poly" || seg == "polyVecK" || seg == "polyVecL"
}

func splitTopLevel(s string, sep rune) []string {
	var out []string
	depth := 0
	last := 0
	for i, c := range s {
		switch c {
		case '(', '[':
			depth++
		case ')', ']':
			depth--
		default:
			if c == sep && depth == 0 {
				out = append(out, s[last:i])
				last = i + 1
			}
		}
	}
	out = append(out, s[last:])
	return out
}

func NewContractSet() *ContractSet {
	return &ContractSet{Funcs: map[string]*Contract{}, Opaque: map[string]bool{}, Preds: map[string]*Pred{}}
}

// substIdent replaces free occurrences of identifier name in e by repl.
func substIdent(e *CExpr, name string, repl *CExpr) *CExpr {
	if e == nil {
		return nil
	}
	switch e.Kind {
	case "ident":
		if e.Name == name {
			return repl
		}
		return e
	case "num", "str":
		return e
	case "forall", "exists":
		for _, v := range e.Vars {
			vn := v
			if i := strings.Index(v, ":"); i >= 0 {
				vn = v[:i]
			}
			if vn == name {
				return e
			}
		}
	}
	n := *e
	n.X = substIdent(e.X, name, repl)
	n.Y = substIdent(e.Y, name, repl)
	n.Z = substIdent(e.Z, name, repl)
	if e.Args != nil {
		n.Args = make([]*CExpr, len(e.Args))
		for i, a := range e.Args {
			n.Args[i] = substIdent(a, name, repl)
		}
	}
	if e.Trig != nil {
		n.Trig = make([][]*CExpr, len(e.Trig))
		for i, alt := range e.Trig {
			for _, t := range alt {
				n.Trig[i] = append(n.Trig[i], substIdent(t, name, repl))
			}
		}
	}
	return &n
}
