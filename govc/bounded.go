package main

// Back end 4 (bounded): run-time evaluation of a stated contract on the REAL code where no inductive
// proof is attempted.  Always labelled bounded, with its bound, and never counted as discharged.

import (
	"fmt"
	"go/ast"
	"go/parser"
	"go/token"
	"os"
	"path/filepath"
	"regexp"
	"strings"
	"time"
)

// spliceBodies returns the text of file `rel` of the working tree with the bodies of the named functions replaced.
// Everything outside those bodies is byte-identical to the working tree (the splice is by byte offsets).
func (e *Engine) spliceBodies(rel string, bodies map[string]string) (string, []string, error) {
	path := filepath.Join(e.repo, rel)
	src, err := os.ReadFile(path)
	if err != nil {
		return "", nil, err
	}
	fset := token.NewFileSet()
	f, err := parser.ParseFile(fset, path, src, parser.ParseComments)
	if err != nil {
		return "", nil, err
	}
	type cut struct {
		lo, hi int
		text   string
		name   string
	}
	var cuts []cut
	for _, d := range f.Decls {
		fd, ok := d.(*ast.FuncDecl)
		if !ok || fd.Body == nil || fd.Recv != nil {
			continue
		}
		if b, ok := bodies[fd.Name.Name]; ok {
			cuts = append(cuts, cut{fset.Position(fd.Body.Lbrace).Offset, fset.Position(fd.Body.Rbrace).Offset + 1, b, fd.Name.Name})
		}
	}
	out := string(src)
	var done []string
	for i := len(cuts) - 1; i >= 0; i-- {
		out = out[:cuts[i].lo] + cuts[i].text + out[cuts[i].hi:]
		done = append(done, cuts[i].name)
	}
	return out, done, nil
}

func readBodies(rel string) map[string]string {
	txt := readHarness(rel)
	out := map[string]string{}
	parts := strings.Split(txt, "### ")
	for _, p := range parts[1:] {
		nl := strings.Index(p, "\n")
		out[strings.TrimSpace(p[:nl])] = strings.TrimSpace(p[nl+1:])
	}
	return out
}

var boundedLine = regexp.MustCompile(`(?m)^BOUNDED (\S+) cases=(\d+) ok=(true|false)(.*)$`)

func parseBounded(out, bound string, wall float64) []ExtraResult {
	var rs []ExtraResult
	for _, m := range boundedLine.FindAllStringSubmatch(out, -1) {
		n := 0
		fmt.Sscanf(m[2], "%d", &n)
		rs = append(rs, ExtraResult{Name: m[1], Backend: "bounded", OK: m[3] == "true", Cases: n, Detail: strings.TrimSpace(m[4]), Bounded: true, Bound: bound, WallS: round3(wall)})
	}
	return rs
}

// labelRun: exhaustive-over-indices run of the real traversal code on node labels, for the given heights.
func (e *Engine) labelRun(heights []int) []ExtraResult {
	t0 := time.Now()
	bodies := readBodies("xmss/label_bodies.txt")
	hashSrc, d1, err1 := e.spliceBodies("xmss/hash.go", map[string]string{"hashH": bodies["hashH"]})
	fastSrc, d2, err2 := e.spliceBodies("xmss/xmss_fast.go", map[string]string{"genLeafWOTS": bodies["genLeafWOTS"]})
	if err1 != nil || err2 != nil || len(d1) != 1 || len(d2) != 1 {
		return []ExtraResult{{Name: "label-run", Backend: "bounded", Bounded: true, OK: false, Detail: fmt.Sprintf("could not splice hashH/genLeafWOTS (%v %v %v %v)", err1, err2, d1, d2)}}
	}
	var hs []string
	for _, h := range heights {
		hs = append(hs, fmt.Sprint(h))
	}
	os.Setenv("VERIF_HEIGHTS", strings.Join(hs, ","))
	files := map[string]string{
		"xmss/hash.go":                    hashSrc,
		"xmss/xmss_fast.go":               fastSrc,
		"xmss/zz_verif_label_helpers.go":  readHarness("xmss/label_helpers.go.txt"),
		"xmss/zz_verif_label_test.go":     readHarness("xmss/label_test.go.txt"),
	}
	out, err := e.runOverlayTest("xmss", files, "TestVerifLabelRun", 3600)
	rs := parseBounded(out, "all indices 0..2^h-1 of each listed height, node labels instead of digests (control flow of the traversal is hash-independent)", time.Since(t0).Seconds())
	if len(rs) != len(heights) {
		rs = append(rs, ExtraResult{Name: "label-run", Backend: "bounded", Bounded: true, OK: false, Detail: fmt.Sprintf("label run reported %d of %d heights (err=%v): %s", len(rs), len(heights), err, tailStr(out, 800))})
	}
	return rs
}

// diffRun: real hashes, small heights: sign/verify at every index and path independence of the complete state.
func (e *Engine) diffRun(heights []int, seed int) []ExtraResult {
	t0 := time.Now()
	var hs []string
	for _, h := range heights {
		hs = append(hs, fmt.Sprint(h))
	}
	os.Setenv("VERIF_HEIGHTS", strings.Join(hs, ","))
	os.Setenv("VERIF_SEED", fmt.Sprint(seed))
	out, err := e.runOverlayTest("xmss", map[string]string{"xmss/zz_verif_diff_test.go": readHarness("xmss/diff_test.go.txt")}, "TestVerifDiffRun", 1800)
	rs := parseBounded(out, "real hash functions, every index of each listed height, all three hash functions, one seed derived from VERIF_SEED", time.Since(t0).Seconds())
	if len(rs) != 6*len(heights) {
		rs = append(rs, ExtraResult{Name: "diff-run", Backend: "bounded", Bounded: true, OK: false, Detail: fmt.Sprintf("diff run reported %d of %d results (err=%v): %s", len(rs), 6*len(heights), err, tailStr(out, 800))})
	}
	return rs
}

// refRun: library vs. an independent full-Merkle-tree reference implementation (public key and every signature).
func (e *Engine) refRun(heights []int, seed int) []ExtraResult {
	t0 := time.Now()
	var hs []string
	for _, h := range heights {
		hs = append(hs, fmt.Sprint(h))
	}
	os.Setenv("VERIF_HEIGHTS", strings.Join(hs, ","))
	os.Setenv("VERIF_SEED", fmt.Sprint(seed))
	out, err := e.runOverlayTest("xmss", map[string]string{"xmss/zz_verif_ref_test.go": readHarness("xmss/ref_test.go.txt")}, "TestVerifRefRun", 1800)
	rs := parseBounded(out, "independent reference implementation, public key and the signature at every index of each listed height, three hash functions, one VERIF_SEED-derived seed", time.Since(t0).Seconds())
	if len(rs) != 3*len(heights) {
		rs = append(rs, ExtraResult{Name: "ref-run", Backend: "bounded", Bounded: true, OK: false, Detail: fmt.Sprintf("reference run reported %d of %d results (err=%v): %s", len(rs), 3*len(heights), err, tailStr(out, 800))})
	}
	return rs
}

// dilRefRun: independent specification-level Dilithium (plain polynomial arithmetic) against the library: keys,
// deterministic signatures, sign->verify, Seal/Open/Extract framing, re-signing; time-boxed.
func (e *Engine) dilRefRun(seconds, keys, seed int) []ExtraResult {
	t0 := time.Now()
	os.Setenv("VERIF_SEED", fmt.Sprint(seed))
	os.Setenv("VERIF_DIL_SECONDS", fmt.Sprint(seconds))
	os.Setenv("VERIF_DIL_KEYS", fmt.Sprint(keys))
	out, err := e.runOverlayTest("dilithium", map[string]string{"dilithium/zz_verif_ref_test.go": readHarness("dilithium/ref_test.go.txt")}, "TestVerifDilithiumRefRun", seconds+600)
	bound := fmt.Sprintf("%d VERIF_SEED-derived 48-byte seeds, messages of lengths 0,1,7,32,33,135,136,137,200,1000,5000 in rotation for %d s of wall time; compared byte for byte with an independent specification-level implementation (schoolbook arithmetic mod q)", keys, seconds)
	rs := parseBounded(out, bound, time.Since(t0).Seconds())
	if len(rs) != 1 {
		rs = append(rs, ExtraResult{Name: "dilithium-reference", Backend: "bounded", Bounded: true, OK: false, Detail: fmt.Sprintf("reference run reported %d results (err=%v): %s", len(rs), err, tailStr(out, 800))})
	}
	return rs
}

// stubXofRun: the real polyUniform on stub XOF streams that force the refill path (see harness/dilithium/stubxof_test.go.txt).
func (e *Engine) stubXofRun() []ExtraResult {
	t0 := time.Now()
	src, err := os.ReadFile(filepath.Join(e.repo, "dilithium/poly.go"))
	if err != nil {
		return []ExtraResult{{Name: "polyUniform-stub-xof", Backend: "bounded", Bounded: true, OK: false, Detail: err.Error()}}
	}
	const ctor = "sha3.NewShake128()"
	if n := strings.Count(string(src), ctor); n != 1 {
		return []ExtraResult{{Name: "polyUniform-stub-xof", Backend: "bounded", Bounded: true, OK: false, Detail: fmt.Sprintf("expected exactly one %s in dilithium/poly.go, found %d: the mechanical replacement is not defined", ctor, n)}}
	}
	patched := strings.Replace(string(src), ctor, "verifNewShake128()", 1)
	helper := "package dilithium\n\nimport \"golang.org/x/crypto/sha3\"\n\nvar verifNewShake128 = sha3.NewShake128\n"
	out, rerr := e.runOverlayTest("dilithium", map[string]string{
		"dilithium/poly.go":                   patched,
		"dilithium/zz_verif_stubxof.go":       helper,
		"dilithium/zz_verif_stubxof_test.go":  readHarness("dilithium/stubxof_test.go.txt"),
	}, "TestVerifStubXOF", 300)
	rs := parseBounded(out, "real polyUniform with sha3.NewShake128() replaced by a stub stream (real SHAKE-128 output with 0..120 of the first 300 candidates forced to be rejected, 3 placements each); compared with the specification's sampler on the same stream", time.Since(t0).Seconds())
	if len(rs) != 1 {
		rs = append(rs, ExtraResult{Name: "polyUniform-stub-xof", Backend: "bounded", Bounded: true, OK: false, Detail: fmt.Sprintf("stub run reported %d results (err=%v): %s", len(rs), rerr, tailStr(out, 800))})
	}
	return rs
}
