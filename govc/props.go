package main

// Per-property configuration: level, explanation, and the non-SMT back ends that accompany the
// solver obligations (table = exhaustive evaluation of the real code on a finite domain; linform =
// syntactic linear-form typing; bounded = bounded stand-in, never counted as discharged).

import (
	"fmt"
	"go/ast"
	"go/token"
	"go/types"
	"os"
	"sort"
	"strings"
	"time"
)

var c15Stateless = []string{
	"dilithium.Verify", "dilithium.Open", "dilithium.ExtractMessage", "dilithium.ExtractSignature", "dilithium.GetDilithiumDescriptor",
	"dilithium.GetDilithiumAddressFromPK", "dilithium.IsValidDilithiumAddress",
	"dilithium.Dilithium.GetPK", "dilithium.Dilithium.GetSK", "dilithium.Dilithium.GetSeed", "dilithium.Dilithium.GetHexSeed",
	"dilithium.Dilithium.GetMnemonic", "dilithium.Dilithium.Seal", "dilithium.Dilithium.Sign", "dilithium.Dilithium.GetAddress",
	"dilithium.NewDilithiumFromSeed", "dilithium.NewDilithiumFromMnemonic", "dilithium.NewDilithiumFromHexSeed",
	"xmss.Verify", "xmss.VerifyWithCustomWOTSParamW", "xmss.GetXMSSAddressFromPK", "xmss.IsValidXMSSAddress",
	"xmss.GetLegacyXMSSAddressFromPK", "xmss.IsValidLegacyXMSSAddress",
	"xmss.NewQRLDescriptor", "xmss.NewQRLDescriptorFromBytes", "xmss.NewQRLDescriptorFromExtendedSeed", "xmss.NewQRLDescriptorFromExtendedPK",
	"xmss.LegacyQRLDescriptorFromBytes", "xmss.LegacyQRLDescriptorFromExtendedPK",
	"xmss.QRLDescriptor.GetHeight", "xmss.QRLDescriptor.GetHashFunction", "xmss.QRLDescriptor.GetSignatureType", "xmss.QRLDescriptor.GetAddrFormatType", "xmss.QRLDescriptor.GetBytes",
	"xmss.NewWOTSParams", "xmss.NewXMSSParams",
	"misc.MnemonicToSeedBin", "misc.MnemonicToExtendedSeedBin", "misc.SeedBinToMnemonic", "misc.ExtendedSeedBinToMnemonic",
	"dilithiumjs.DilithiumVerify", "dilithiumjs.GetDilithiumAddressFromPK", "dilithiumjs.IsValidDilithiumAddress",
	"xmssjs.XMSSVerify", "xmssjs.GetXMSSAddressFromPK", "xmssjs.IsValidXMSSAddress",
}

var c15XMSSMethods = []string{
	"xmss.XMSS.SetIndex", "xmss.XMSS.Sign", "xmss.XMSS.GetHeight", "xmss.XMSS.GetPKSeed", "xmss.XMSS.GetSeed", "xmss.XMSS.GetExtendedSeed",
	"xmss.XMSS.GetHexSeed", "xmss.XMSS.GetMnemonic", "xmss.XMSS.GetRoot", "xmss.XMSS.GetPK", "xmss.XMSS.GetSK", "xmss.XMSS.GetAddress",
	"xmss.XMSS.GetLegacyAddress", "xmss.XMSS.GetIndex",
}

var c15Constructors = []string{"xmss.NewXMSSFromSeed", "xmss.NewXMSSFromExtendedSeed", "xmss.NewXMSSFromHeight", "dilithium.New", "dilithium.NewDilithiumFromSeed", "dilithium.NewDilithiumFromMnemonic", "dilithium.NewDilithiumFromHexSeed"}

func effExtras(obs []EffOb) []ExtraResult {
	var out []ExtraResult
	for _, o := range obs {
		out = append(out, ExtraResult{Name: o.Name, Backend: "effects", OK: o.OK, Cases: 1, Detail: o.Detail})
	}
	return out
}

func labelHeights(tier string) []int {
	hs := []int{4, 6, 8, 10, 12, 14, 16, 18, 20}
	if tier == "thorough" {
		hs = append(hs, 22, 24)
		if os.Getenv("VERIF_FULL") == "1" {
			hs = append(hs, 26, 28, 30)
		}
	}
	return hs
}

func init() {
	propConfigs["C01"] = &propConfig{
		level:   "other",
		explain: "Deductive part (all inputs, no bound): contracts on the real signing path (xmssFastSignMessage, wotsSign, expandSeed, getSeed, genChain, hashF, prf, coreHash, hMsg, (*XMSS).Sign/SetIndex) and on the verification path (xmssVerifySig, wotsPKFromSig, lTree, validateAuthPath, CalcBaseW): memory safety for every length, signature layout length 2180+32h with the index field equal to the consumed index, index automaton (C02), frames. Bounded part (labelled bounded, never counted as discharged): (1) the BDS traversal invariant 'the stored authentication path of leaf i is Node(j,(i>>j) xor 1) and the root is Node(h,0)' is evaluated on the REAL traversal code for EVERY index of every listed height with node labels in place of digests (only hashH and genLeafWOTS bodies are spliced, mechanically, on each run); (2) with the real hash functions every signature at every index of the small heights verifies. Under functional contract since: genChain = recursive spec chain (with composition lemma chain(chain(X,s,a),s+a,b) = chain(X,s,a+b) and congruence lemmas by induction), CalcBaseW digits + checksum, wotsSign / wOTSPKGen / wotsPKFromSig node-wise, lTree = lnode, validateAuthPath = fold, xmssVerifySig accepts iff the closed-form root equals the pk root (C04). Composition: the lemma function verifLemmaWotsSignThenRecover proves wotsPKFromSig(wotsSign(m)) == wOTSPKGen for every message, seed, address and parameter set, and verifLemmaLeafFromSignature proves that the leaf the verifier recomputes from a signature equals the leaf genLeafWOTS computes for the same address (genLeafWOTS under a functional contract). Not deductive: the BDS traversal invariant (the authentication path in the signature is the sibling path of the leaf, the stored root is the Merkle root) - that is the bounded label run.",
		extras: func(e *Engine, tier string, seed int) []ExtraResult {
			out := e.labelRun(labelHeights(tier))
			hs := []int{4}
			if tier == "thorough" {
				hs = []int{4, 6}
			}
			return append(out, e.diffRun(hs, seed)...)
		},
		trusted: []string{
			"BDS traversal correctness is NOT proved for symbolic height: bounded exhaustive evaluation over all indices of the listed heights (quick: even h 4..20; thorough: ..24; VERIF_FULL=1: ..30); heights not run are not covered",
			"seed/hash independence of the traversal's control flow (node bytes never reach a branch or an index) is argued from the code structure, it is not a discharged obligation",
		},
	}
	dilBudget := func(tier string) (int, int) {
		if tier == "thorough" {
			return 600, 6
		}
		return 40, 2
	}
	propConfigs["C07"] = &propConfig{
		level:   "other",
		explain: "Deductive part (all inputs): (i) the signer cryptoSignSignature is verified for memory safety and arithmetic ranges on every path of the rejection loop, and `after`-assertions pin the specification's acceptance conditions with their exact bounds at the points where the specification has them: ||z||inf < GAMMA1-BETA, ||LowBits(w-cs2)||inf < GAMMA2-BETA, ||ct0||inf < GAMMA2, hint weight = number of non-zero hint coefficients <= OMEGA, and the z part of the signature is the canonical encoding of z; (ii) the arithmetic components are proved equal to their specification functions (C12: Montgomery/Barrett reduction, Power2Round, Decompose/HighBits/LowBits, MakeHint, UseHint, norm test, NTT tables by exhaustive table evaluation) and the encodings are proved lossless and canonical (C13); (iii) call-history independence: cryptoSign is a function of (message, secret key) only (effects back end: no randomness on the deterministic path, no package-level state, the key object is not written), and the lemma function verifLemmaSignAgain shows the same message signed again after other calls gives the identical signature. Bounded part (labelled bounded): byte identity of whole public keys, secret keys and signatures with an independent specification-level implementation of Dilithium round 3.1 level 5 written from the specification with schoolbook polynomial arithmetic modulo q (no NTT, no Montgomery form, no library function) on VERIF_SEED-derived seeds and messages for a fixed wall-time budget; the reference recognises and counts boundary cases (rejection tests met with equality or missed by one, rounding ties, sampler candidates next to the acceptance bound). Samplers under functional contract: ExpandMask (polyUniformGamma1 = 20-bit little-endian fields of the SHAKE-256 stream), SampleInBall (recursive specification including the refill path), rejUniform / rejEta (candidate semantics: accepted candidates in stream order), polyUniform / polyUniformEta absorbed input and stream-window invariants (the latter found F3). NOT under functional contract: the composed output of polyUniform / polyUniformEta across refills as one closed form, 'NTT-domain product = polynomial product' beyond the table checks of C12, and the composition of the pieces into whole-key / whole-signature equality.",
		extras: func(e *Engine, tier string, seed int) []ExtraResult {
			sec, keys := dilBudget(tier)
			return append(e.dilRefRun(sec, keys, seed), e.stubXofRun()...)
		},
		trusted: []string{
			"byte identity of keys and signatures with the specification is decided only by the bounded differential run (quick: 2 seeds / 40 s, thorough: 6 seeds / 600 s); boundary cases met are counted in the evidence, boundary cases not met are not covered",
			"SHAKE-128/256 (golang.org/x/crypto/sha3) is shared by the library and the reference and trusted (T4)",
			"termination of the rejection loop and of the rejection samplers is assumed (decreases _)",
		},
	}
	propConfigs["C03"] = &propConfig{
		level:   "other",
		explain: "Deductive part (all inputs): (i) framing, by lemma functions over the real Seal/Sign/Open/Extract code: Seal(m) = Sign(m) || m, ExtractSignature(Seal(m)) = Sign(m), ExtractMessage(Seal(m)) = m (verifLemmaSealFraming), and Open(Seal(m)) returns exactly m when Verify(m, Sign(m)) holds and nothing otherwise (verifLemmaOpenOfSeal); cryptoSign is a function of (message, key) so the two calls agree; (ii) signer-side acceptance conditions with exact bounds (see C07) and the coefficient-level lemmas that make verification recompute the signer's w1: L_usehint (UseHint(MakeHint(z,r),r) = HighBits(r+z)), L_hint_code_shape (the library's makeHint code on (w0-cs2+ct0, w1) is the specification's MakeHint under the signer's norm conditions), Decompose/UseHint contracts (C12). Bounded part (labelled bounded): 'Verify(m, Sign(m), pk) is true' for whole signatures needs the ring identity Az - c*t1*2^d = w - c*s2 + c*t0 over NTT-domain arithmetic, which is not mechanised; it is decided on VERIF_SEED-derived seeds and messages of lengths 0..5000 by running the real signer and verifier (and an independent specification-level verifier) for a fixed wall-time budget, recording how many rejection-loop iterations of each kind occurred.",
		extras: func(e *Engine, tier string, seed int) []ExtraResult {
			sec, keys := dilBudget(tier)
			return e.dilRefRun(sec, keys, seed)
		},
		trusted: []string{
			"sign->verify for whole signatures is decided only by the bounded run (quick: 2 seeds / 40 s; thorough: 6 seeds / 600 s); the ring-algebra step is not mechanised",
			"termination of the rejection loop is assumed (decreases _)",
		},
	}
	propConfigs["C06"] = &propConfig{
		level: "other",
		explain: "Deductive part (all inputs): every hash construction of the scheme is proved equal to its specification over uninterpreted hash primitives: coreHash = H_id(toByte(type,32) || key || in) for ids 0..2 and a no-op otherwise, prf (type 3), hashF (type 0, key = PRF(pubSeed, addr|km=0), mask km=1), hashH (type 1, masks km=1,2), hMsg (type 2, 96-byte key), big-endian address serialisation and toByte, getSeed, expandSeed, the SHAKE-256 seed expansion and sk/pk layout of XMSSFastGenKeyPair, and the signing-side wiring of xmssFastSignMessage (R = PRF(SK_PRF, toByte(idx,32)), hash key R || root || toByte(idx,32), index field, randomiser field, authentication path copied from the state BEFORE the traversal step); Verify == VerifyWithCustomWOTSParamW(.., 16). Bounded part (labelled): an independent full-Merkle-tree reference implementation written from RFC 8391 + QRL conventions reproduces the library's public key and the signature bytes at every index of the listed heights for all three hash functions; tree root / authentication-path contents additionally inherit the label run of C01. WOTS chains (genChain = chain), base-w digits and checksum, wotsSign / wOTSPKGen / wotsPKFromSig, lTree (= lnode) and the authentication-path fold (= fold) are under recursive specifications on both the signing and the verification side. Not under a recursive specification: treeHashSetup / the BDS node computation (safety, frames, purity only) - that part of the public key root and of the authentication path rests on the bounded runs.",
		extras: func(e *Engine, tier string, seed int) []ExtraResult {
			hs := []int{4}
			if tier == "thorough" {
				hs = []int{4, 6, 8}
			}
			out := e.refRun(hs, seed)
			out = append(out, e.tableRun("misc", "misc/table_test.go.txt", 2)...)
			return append(out, e.labelRun(labelHeights(tier))...)
		},
		trusted: []string{
			"byte-identity of whole keys and signatures with the reference is decided by a bounded differential run (heights 4 (quick) / 4,6,8 (thorough)); the per-hash-call constructions and the wiring are proved for all inputs",
		},
	}
	propConfigs["C04"] = &propConfig{
		level: "proof",
		trusted: []string{
			"'any changed bit / other key / other index is rejected' is a collision-resistance statement, not a functional one, and is not claimed; what is proved is which bytes are interpreted how, the full 32-byte comparison, and the rejection of unsupported hash ids and inconsistent heights",
			"xmssVerifySig's callees (hMsg, wotsPKFromSig, lTree, validateAuthPath) enter through their `pure` abstraction plus the hash-construction contracts of C06; the recursive chain/L-tree/fold structure is not under functional contract",
		},
	}
	propConfigs["C10"] = &propConfig{
		level: "proof",
		extras: func(e *Engine, tier string, seed int) []ExtraResult {
			return e.tableRun("misc", "misc/table_test.go.txt", 2)
		},
		trusted: []string{
			"T5 assumed library semantics, stated over abstract strings in spec/20_strings.smt2: fmt.Fprint into a bytes.Buffer appends its operands; strings.Split(s, \" \") tokenises; Join(Split(s)) = s; splitting a phrase joined from non-empty blank-free words returns those words; Go map insert/lookup",
			"word-list facts (4096 pairwise distinct, non-empty, lower-case, blank-free words) are decided exhaustively on the real table by the table back end and enter the proofs as axioms",
			"refusal of irregular spacing / letter case follows from 'a token that is not a list word is refused' together with the assumed Split semantics (an empty or upper-case token is not a list word); it is not proved at the byte level",
		},
	}
	propConfigs["C09"] = &propConfig{
		level: "proof",
		extras: func(e *Engine, tier string, seed int) []ExtraResult {
			// the mnemonic legs rest on the word list being duplicate-free: decided exhaustively on the real table
			return e.tableRun("misc", "misc/table_test.go.txt", 2)
		},
		trusted: []string{
			"assumed: encoding/hex contracts (T5), crypto/rand.Read fills its buffer with arbitrary bytes, hashes deterministic (T4)",
			"mnemonic legs: dec(enc(b)) = b for 48/51-byte strings is proved in C10 (lemma functions, tagged C09 as well) and the word list is checked here; the composition 'NewXMSSFromExtendedSeed(MnemonicToExtendedSeedBin(k.GetMnemonic())) == k' is the ext-seed lemma applied to equal bytes and is not a separate obligation",
		},
	}
	propConfigs["C08"] = &propConfig{
		level:   "other",
		explain: "Deductive part: (i) bdsRound, bdsTreeHashUpdate, treeHashSetup and initializeTree carry `pure` contracts (result and final state are a function of the arguments; bdsRound/bdsTreeHashUpdate depend on the address argument only through addr[0:3]) discharged by the effects back end on go/ssa, with assigns clauses confining their writes to the traversal state; (ii) lemma function verifLemmaUpdateToCurrentIsIdentity: a jump to the current index changes neither sk nor any traversal buffer; (iii) the index/seed part of the state (sk) evolves identically on the signing and the fast-forward path (C02 contracts); (iv) ghost call counters and anchored assertions: Sign performs exactly one pair bdsRound(idx), bdsTreeHashUpdate (exactly when idx < 2^h-1), a jump performs exactly newIdx-idx such pairs at leaves idx, idx+1, ..., in lockstep, and at both call sites the seeds and address words passed are the same functions of the secret key fields. The product-program lemma 'one Sign step == one fast-forward step on the whole traversal state' (verifLemmaSignStepEqualsUpdateStep) is written and well-formed but the solvers do not decide it within the limits; it is NOT claimed. Bounded stand-in for it (labelled bounded): with the real hash functions, for every index of the listed small heights and all three hash functions, the complete state (sk, stack, levels, auth, keep, retain, every treehash instance) reached by signing equals the state reached by one jump and by two jumps on a fresh key, and the next signatures are byte-identical.",
		extras: func(e *Engine, tier string, seed int) []ExtraResult {
			hs := []int{4}
			if tier == "thorough" {
				hs = []int{4, 6}
			}
			return e.diffRun(hs, seed)
		},
		trusted: []string{
			"path independence of the traversal state is decided only by a bounded differential run (heights 4 (quick) / 4,6 (thorough), one VERIF_SEED-derived seed, 3 hash functions); the deductive step lemma is not discharged",
			"loop splitting (fast-forward a->b then b->c equals a->c) is the meaning of the for-loop in xmssFastUpdate and is not mechanised",
		},
	}
	propConfigs["C15"] = &propConfig{
		level: "proof",
		extras: func(e *Engine, tier string, seed int) []ExtraResult {
			ef := e.BuildEffects()
			var obs []EffOb
			// E1: no function of the library writes package-level memory (js.Object plumbing excluded)
			var keys []string
			for k := range ef.fns {
				keys = append(keys, k)
			}
			sort.Strings(keys)
			for _, k := range keys {
				if strings.HasPrefix(k, "main.") || strings.HasPrefix(k, "dilithiumjs.DilithiumJS") || strings.HasPrefix(k, "xmssjs.XMSSJS") ||
					strings.HasPrefix(k, "dilithiumjs.New") || strings.HasPrefix(k, "dilithiumjs.new") || strings.HasPrefix(k, "xmssjs.New") || strings.HasPrefix(k, "xmssjs.new") || strings.HasSuffix(k, ".init") {
					continue
				}
				obs = append(obs, ef.obNoGlobalWrites(k))
			}
			// E2 + E3: the stateless API writes none of its arguments and is a function of them
			for _, k := range c15Stateless {
				obs = append(obs, ef.obWritesOnly(k, map[int]bool{}), ef.obPure(k))
			}
			// E4: XMSS methods write only memory reachable from their receiver; constructors return fresh memory
			for _, k := range c15XMSSMethods {
				obs = append(obs, ef.obWritesOnly(k, map[int]bool{0: true}), ef.obPure(k))
			}
			for _, k := range c15Constructors {
				obs = append(obs, ef.obFreshResult(k), ef.obWritesOnly(k, map[int]bool{}))
			}
			return effExtras(obs)
		},
		trusted: []string{
			"no schedule is executed and no race detector is run: data-race freedom follows from the frame/purity obligations by the Go memory model's DRF guarantee (T9), which is assumed",
			"thread-safety and determinism of crypto/rand, golang.org/x/crypto/sha3, crypto/sha256, encoding/hex, strings, bytes, fmt, reflect.DeepEqual are assumed (external, T4/T5)",
			"misc.GetEndian uses unsafe; trusted (T6) as a constant function of the host",
			"js.Object constructors and methods (gopherjs plumbing) are out of scope",
		},
	}
	propConfigs["C14"] = &propConfig{
		level: "proof",
		extras: func(e *Engine, tier string, seed int) []ExtraResult {
			out := e.tableRun("xmss", "xmss/table_test.go.txt", 1)
			return append(out, e.tableRun("misc", "misc/table_test.go.txt", 2)...)
		},
		trusted: []string{
			"T7 termination of the rejection-sampling loops (polyUniform, polyChallenge inside dilithium.Verify) depends on XOF output and is assumed; every other loop has a proved variant",
			"T8 callers pass non-nil pointers (a nil *[N]uint8 is not 'bytes')",
			"no object of 2^40 bytes or more exists in the process (slice/string lengths are bounded by 2^40)",
		},
	}
	propConfigs["C12"] = &propConfig{
		level: "proof",
		extras: func(e *Engine, tier string, seed int) []ExtraResult {
			var out []ExtraResult
			out = append(out, e.linformCheck("dilithium.ntt", "a")...)
			out = append(out, e.linformCheck("dilithium.invNTTToMont", "a")...)
			t0 := time.Now()
			txt, err := e.runOverlayTest("dilithium", map[string]string{"dilithium/zz_verif_table_test.go": readHarness("dilithium/table_test.go.txt")}, "TestVerifTable", 120)
			rs := parseTable(txt, "table", time.Since(t0).Seconds())
			if len(rs) != 4 {
				out = append(out, ExtraResult{Name: "ntt-table", Backend: "table", OK: false, Detail: fmt.Sprintf("table harness did not report 4 facts (err=%v): %s", err, tailStr(txt, 600))})
			}
			return append(out, rs...)
		},
		trusted: []string{
			"NTT product = negacyclic product for ALL polynomials is obtained as: Z_q-(bi)linearity by linear-form typing of the real function bodies (linform back end, relies on montgomeryReduce's discharged contract) + exhaustive evaluation of the real code on all 256 basis vectors / 65536 basis pairs (table back end); the step 'a (bi)linear map is determined by its values on a basis' is ordinary algebra and is not mechanised",
		},
	}
}

func (e *Engine) tableRun(pkgDir, harness string, want int) []ExtraResult {
	t0 := time.Now()
	txt, err := e.runOverlayTest(pkgDir, map[string]string{pkgDir + "/zz_verif_table_test.go": readHarness(harness)}, "TestVerifTable", 120)
	rs := parseTable(txt, "table", time.Since(t0).Seconds())
	if len(rs) != want {
		rs = append(rs, ExtraResult{Name: pkgDir + "-table", Backend: "table", OK: false, Detail: fmt.Sprintf("table harness did not report %d facts (err=%v): %s", want, err, tailStr(txt, 600))})
	}
	return rs
}

func tailStr(s string, n int) string {
	if len(s) > n {
		return s[len(s)-n:]
	}
	return s
}

// linformCheck: every value stored into arr[...] inside fn is a Z_q-linear form of the array's entries:
//
//	L ::= arr[i] | L + L | L - L | t (a local holding L) | montgomeryReduce(int64(C) * int64(L))
//	C ::= literal | zetas[...] | -C | local assigned only C     (independent of the array)
//
// and no array entry flows into an index, a loop bound or a branch condition.  With montgomeryReduce's
// contract (result*2^32 == x (mod q), discharged under C12) each production is a Z_q-linear map, hence
// the whole function is one.  No solver is involved; this is structural induction done by the engine.
func (e *Engine) linformCheck(key, arr string) []ExtraResult {
	fi := e.funcs[key]
	res := ExtraResult{Name: "linear-form " + key, Backend: "linform", Cases: 0}
	if fi == nil {
		res.Detail = "function not found"
		return []ExtraResult{res}
	}
	info := fi.Pkg.TypesInfo
	var arrObj types.Object
	for _, f := range fi.Decl.Type.Params.List {
		for _, n := range f.Names {
			if n.Name == arr {
				arrObj = info.Defs[n]
			}
		}
	}
	if arrObj == nil {
		res.Detail = "array parameter not found"
		return []ExtraResult{res}
	}
	kind := map[types.Object]string{} // "L" or "C" for int32 locals
	isArrElem := func(x ast.Expr) bool {
		ix, ok := x.(*ast.IndexExpr)
		if !ok {
			return false
		}
		id, ok := ix.X.(*ast.Ident)
		return ok && info.ObjectOf(id) == arrObj
	}
	var mentionsArr func(x ast.Node) bool
	mentionsArr = func(x ast.Node) bool {
		found := false
		ast.Inspect(x, func(n ast.Node) bool {
			if id, ok := n.(*ast.Ident); ok {
				if info.ObjectOf(id) == arrObj {
					found = true
				}
				if k, ok := kind[info.ObjectOf(id)]; ok && k == "L" {
					found = true
				}
			}
			return true
		})
		return found
	}
	var classify func(x ast.Expr) string
	classify = func(x ast.Expr) string {
		switch v := x.(type) {
		case *ast.ParenExpr:
			return classify(v.X)
		case *ast.BasicLit:
			return "C"
		case *ast.Ident:
			if tv, ok := info.Types[v]; ok && tv.Value != nil {
				return "C"
			}
			if k, ok := kind[info.ObjectOf(v)]; ok {
				return k
			}
			return "?"
		case *ast.IndexExpr:
			if isArrElem(v) {
				if mentionsArr(v.Index) {
					return "?"
				}
				return "L"
			}
			if id, ok := v.X.(*ast.Ident); ok && id.Name == "zetas" && !mentionsArr(v.Index) {
				return "C"
			}
			return "?"
		case *ast.UnaryExpr:
			if v.Op == token.SUB {
				return classify(v.X)
			}
		case *ast.BinaryExpr:
			l, r := classify(v.X), classify(v.Y)
			if v.Op == token.ADD || v.Op == token.SUB {
				if l == "L" && r == "L" {
					return "L"
				}
				if l == "C" && r == "C" {
					return "C"
				}
			}
			return "?"
		case *ast.CallExpr:
			if tv, ok := info.Types[v.Fun]; ok && tv.IsType() {
				// conversions int32(c), int64(x) keep the class
				return classify(v.Args[0])
			}
			if id, ok := v.Fun.(*ast.Ident); ok && id.Name == "montgomeryReduce" && len(v.Args) == 1 {
				if m, ok := v.Args[0].(*ast.BinaryExpr); ok && m.Op == token.MUL {
					l, r := classify(m.X), classify(m.Y)
					if l == "C" && r == "L" || l == "L" && r == "C" {
						return "L"
					}
				}
			}
			return "?"
		}
		return "?"
	}
	ok := true
	why := ""
	stores := 0
	// two passes so that locals assigned later in the loop body are classified
	for pass := 0; pass < 2; pass++ {
		ast.Inspect(fi.Decl.Body, func(n ast.Node) bool {
			switch s := n.(type) {
			case *ast.AssignStmt:
				if len(s.Lhs) != 1 || len(s.Rhs) != 1 {
					return true
				}
				cls := classify(s.Rhs[0])
				if isArrElem(s.Lhs[0]) {
					if pass == 1 {
						stores++
						if mentionsArr(s.Lhs[0].(*ast.IndexExpr).Index) {
							ok, why = false, "array entry used in an index at "+e.pos(s)
						}
						if cls != "L" {
							ok, why = false, "store of a non-linear form at "+e.pos(s)
						}
					}
					return true
				}
				if id, isId := s.Lhs[0].(*ast.Ident); isId {
					obj := info.ObjectOf(id)
					if b, isB := obj.Type().Underlying().(*types.Basic); isB && b.Kind() == types.Int32 {
						if prev, seen := kind[obj]; seen && prev != cls && pass == 1 && cls != "?" {
							// a local used both ways is treated as unknown
						}
						if cls == "L" || cls == "C" {
							if prev, seen := kind[obj]; !seen || prev == cls {
								kind[obj] = cls
							} else {
								kind[obj] = "?"
							}
						} else if pass == 1 {
							kind[obj] = "?"
						}
					} else if mentionsArr(s.Rhs[0]) && pass == 1 {
						ok, why = false, "array entry flows into a non-int32 local at "+e.pos(s)
					}
				}
			case *ast.ForStmt:
				if pass == 1 && s.Cond != nil && mentionsArr(s.Cond) {
					ok, why = false, "array entry in a loop condition at "+e.pos(s)
				}
			case *ast.IfStmt:
				if pass == 1 && mentionsArr(s.Cond) {
					ok, why = false, "array entry in a branch condition at "+e.pos(s)
				}
			}
			return true
		})
	}
	res.OK = ok && stores > 0
	res.Cases = stores
	if res.OK {
		res.Detail = fmt.Sprintf("%d stores into %s[...], each a Z_q-linear form of the array entries (structural check on the working tree's AST)", stores, arr)
	} else {
		res.Detail = "not a linear form: " + why
	}
	return []ExtraResult{res}
}
