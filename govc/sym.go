package main

// Symbolic values, cells and states.

import (
	"fmt"
	"go/types"
	"math/big"
	"sort"
	"strings"
)

type Val interface{}

// SV: scalar — sized integers and int/uint (sort Int, range-constrained), bool (Bool),
// error / other interfaces (Bool = "is non-nil"), and values of abstract sorts.
type SV struct {
	T   *Term
	Typ types.Type
}

// AV: a Go fixed-size array value; T has an array sort.
type AV struct {
	T   *Term
	Typ types.Type
}

// TV: a struct value, fields in declaration order.
type TV struct {
	Fs  []Val
	Typ types.Type
}

// MV: contents of a slice backing store (unbounded SMT array of elements).
type MV struct {
	T    *Term
	Elem types.Type
}

// LV: slice or string value: a window [Off, Off+Len) of the backing-store cell.
type LV struct {
	Cell          int
	Off, Len, Cap *Term
	Elem          types.Type
	IsNil         *Term
	Str           bool
	Typ           types.Type
	Path          []Sel // place of the array inside the cell (slices of arrays); nil for plain backing stores
	Frozen        *State // contracts only: old(s) reads its backing store in this state
	Abs           *Term  // strings only: the string as one abstract value of sort Str, when known
}

// TXV: contents of a bytes.Buffer used as a text builder, as one abstract string.
type TXV struct {
	T   *Term
	Typ types.Type
}

type Sel struct {
	IsIdx bool
	Field int
	Idx   *Term
}

// PV: pointer to a place (cell + path).
type PV struct {
	Cell   int
	Path   []Sel
	IsNil  *Term
	Typ    types.Type // pointer type
	Frozen *State     // contracts only: old(p) dereferences in this state
}

// FV: a map value modelled as two SMT arrays over an abstract key sort (see C10).
type FV struct {
	Present *Term // (Array Key Bool) encoded as function-like array
	Value   *Term
	Typ     types.Type
}

type State struct {
	vars    map[types.Object]int
	cells   map[int]Val
	pc      []*Term
	written map[int]bool // cells written (dry-run bookkeeping and frame checks)
	wfields map[int]map[int]bool // for struct cells: top-level fields written (-1 = the whole cell)
	dead    bool
}

func (s *State) clone() *State {
	n := &State{vars: make(map[types.Object]int, len(s.vars)), cells: make(map[int]Val, len(s.cells)), written: map[int]bool{}}
	for k, v := range s.vars {
		n.vars[k] = v
	}
	for k, v := range s.cells {
		n.cells[k] = v
	}
	for k := range s.written {
		n.written[k] = true
	}
	if s.wfields != nil {
		n.wfields = map[int]map[int]bool{}
		for k, m := range s.wfields {
			nm := map[int]bool{}
			for f := range m {
				nm[f] = true
			}
			n.wfields[k] = nm
		}
	}
	n.pc = append([]*Term(nil), s.pc...)
	return n
}

// aboutTerm: hypotheses that are facts about one particular application term (axiom instances for a bit
// operation).  They are shipped with a VC only if that term occurs in it (relevance filter; dropping a
// hypothesis can never make an invalid VC provable).
var aboutTerm = map[*Term]*Term{}

func (s *State) assumeAbout(subject, t *Term) {
	if t.IsTrue() {
		return
	}
	aboutTerm[t] = subject
	s.pc = append(s.pc, t)
}

func (s *State) assume(t *Term) {
	if t.IsTrue() {
		return
	}
	if t.Op == "and" {
		for _, a := range t.Args {
			s.assume(a)
		}
		return
	}
	s.pc = append(s.pc, t)
}

// ---- type helpers ----------------------------------------------------------------------------------

type intKind struct {
	bits   uint
	signed bool
}

func intKindOf(t types.Type) (intKind, bool) {
	b, ok := t.Underlying().(*types.Basic)
	if !ok {
		return intKind{}, false
	}
	switch b.Kind() {
	case types.Int8:
		return intKind{8, true}, true
	case types.Int16:
		return intKind{16, true}, true
	case types.Int32:
		return intKind{32, true}, true
	case types.Int64, types.Int:
		return intKind{64, true}, true
	case types.Uint8:
		return intKind{8, false}, true
	case types.Uint16:
		return intKind{16, false}, true
	case types.Uint32:
		return intKind{32, false}, true
	case types.Uint64, types.Uint, types.Uintptr:
		return intKind{64, false}, true
	case types.UntypedInt, types.UntypedRune:
		return intKind{64, true}, true
	}
	return intKind{}, false
}

func (k intKind) min() *big.Int {
	if !k.signed {
		return big.NewInt(0)
	}
	return new(big.Int).Neg(new(big.Int).Lsh(big.NewInt(1), k.bits-1))
}
func (k intKind) max() *big.Int {
	if !k.signed {
		return new(big.Int).Sub(new(big.Int).Lsh(big.NewInt(1), k.bits), big.NewInt(1))
	}
	return new(big.Int).Sub(new(big.Int).Lsh(big.NewInt(1), k.bits-1), big.NewInt(1))
}
func (k intKind) contains(o intKind) bool {
	return k.min().Cmp(o.min()) <= 0 && k.max().Cmp(o.max()) >= 0
}

func rangeFact(t *Term, k intKind) *Term {
	return And(Le(NumB(k.min()), t), Le(t, NumB(k.max())))
}

func wrapTo(t *Term, k intKind) *Term {
	if t.IsNum() {
		m := new(big.Int).Lsh(big.NewInt(1), k.bits)
		if k.signed {
			h := new(big.Int).Lsh(big.NewInt(1), k.bits-1)
			v := new(big.Int).Add(t.Num, h)
			v.Mod(v, m)
			v.Sub(v, h)
			return NumB(v)
		}
		return NumB(new(big.Int).Mod(t.Num, m))
	}
	m := Pow2(k.bits)
	if k.signed {
		h := Pow2(k.bits - 1)
		return Sub(Mod(Add(t, h), m), h)
	}
	return Mod(t, m)
}

func isBool(t types.Type) bool {
	b, ok := t.Underlying().(*types.Basic)
	return ok && (b.Kind() == types.Bool || b.Kind() == types.UntypedBool)
}
func isString(t types.Type) bool {
	b, ok := t.Underlying().(*types.Basic)
	return ok && (b.Kind() == types.String || b.Kind() == types.UntypedString)
}
func isErrorType(t types.Type) bool {
	return types.Identical(t, types.Universe.Lookup("error").Type())
}

func typeName(t types.Type) string {
	if n, ok := t.(*types.Named); ok {
		if n.Obj().Pkg() != nil {
			return n.Obj().Pkg().Name() + "." + n.Obj().Name()
		}
		return n.Obj().Name()
	}
	if n, ok := t.(*types.Alias); ok {
		return typeName(types.Unalias(n))
	}
	return t.String()
}

// ---- the verification context pieces that create values --------------------------------------------

type unsupported struct{ msg string }

func (u unsupported) Error() string { return "unsupported: " + u.msg }

func fail(format string, a ...interface{}) {
	panic(unsupported{fmt.Sprintf(format, a...)})
}

func (c *FCtx) freshName(base string) string {
	c.fresh++
	return fmt.Sprintf("%s!%d", base, c.fresh)
}

func (c *FCtx) isOpaque(t types.Type) bool {
	n := typeName(t)
	if c.eng.cs.Opaque[n] {
		return true
	}
	return false
}

func abstractSort(t types.Type) Sort {
	n := typeName(t)
	n = strings.ReplaceAll(n, "github.com/theQRL/go-qrllib/", "")
	out := []rune{}
	for _, r := range n {
		if r >= 'a' && r <= 'z' || r >= 'A' && r <= 'Z' || r >= '0' && r <= '9' {
			out = append(out, r)
		} else {
			out = append(out, '_')
		}
	}
	return Sort("T_" + string(out))
}

// sortOf gives the SMT sort of a Go type when it is storable inside an SMT array / passed to a UF.
func (c *FCtx) sortOf(t types.Type) Sort {
	if c.isOpaque(t) {
		return abstractSort(t)
	}
	switch u := t.Underlying().(type) {
	case *types.Basic:
		if _, ok := intKindOf(t); ok {
			return SInt
		}
		if isBool(t) {
			return SBool
		}
		if isString(t) {
			return Sort("Str")
		}
	case *types.Array:
		return SArr(c.sortOf(u.Elem()))
	case *types.Struct:
		if u.NumFields() == 1 {
			return c.sortOf(u.Field(0).Type())
		}
		return abstractSort(t)
	case *types.Interface:
		if isErrorType(t) {
			return SBool
		}
		return abstractSort(t)
	case *types.Slice:
		if _, isPtr := u.Elem().Underlying().(*types.Pointer); isPtr {
			return abstractSort(t)
		}
	}
	fail("no SMT sort for type %s", t)
	return ""
}

// termToVal wraps a term of sortOf(t) as a value of Go type t.
func (c *FCtx) termToVal(tm *Term, t types.Type) Val {
	if c.isOpaque(t) {
		return SV{tm, t}
	}
	switch u := t.Underlying().(type) {
	case *types.Basic:
		return SV{tm, t}
	case *types.Array:
		return AV{tm, t}
	case *types.Struct:
		if u.NumFields() == 1 {
			return TV{[]Val{c.termToVal(tm, u.Field(0).Type())}, t}
		}
		return SV{tm, t}
	case *types.Interface:
		return SV{tm, t}
	}
	fail("termToVal: type %s", t)
	return nil
}

func (c *FCtx) valToTerm(v Val) *Term {
	switch x := v.(type) {
	case SV:
		return x.T
	case AV:
		return x.T
	case MV:
		return x.T
	case TV:
		if len(x.Fs) == 1 {
			return c.valToTerm(x.Fs[0])
		}
		fail("multi-field struct %s used as a first-class SMT value", x.Typ)
	}
	fail("valToTerm: %T", v)
	return nil
}

// typeFacts returns the range facts for a scalar term read from memory / havocked.
func typeFacts(tm *Term, t types.Type) *Term {
	if k, ok := intKindOf(t); ok {
		return rangeFact(tm, k)
	}
	return True()
}

// elemFactsForall builds the quantified type invariant of an array-sorted symbol.
func (c *FCtx) arrayTypeInv(arr *Term, t types.Type) *Term {
	// descend through array / single-field struct layers
	var bound []*Term
	cur := arr
	for {
		switch u := t.Underlying().(type) {
		case *types.Array:
			b := Sym(c.freshName("q"), SInt)
			bound = append(bound, b)
			cur = Select(cur, b)
			t = u.Elem()
			continue
		case *types.Struct:
			if u.NumFields() == 1 && !c.isOpaque(t) {
				t = u.Field(0).Type()
				continue
			}
		}
		break
	}
	k, ok := intKindOf(t)
	if !ok || len(bound) == 0 {
		return True()
	}
	return Forall(bound, rangeFact(cur, k), cur)
}

// freshVal creates an unconstrained symbolic value of type t (with type-range facts assumed on st).
func (c *FCtx) freshVal(st *State, name string, t types.Type) Val {
	if c.isOpaque(t) {
		return SV{Sym(c.freshName(name), abstractSort(t)), t}
	}
	switch u := t.Underlying().(type) {
	case *types.Basic:
		s := c.sortOf(t)
		if isString(t) {
			return c.freshSlice(st, name, types.Typ[types.Uint8], t, true)
		}
		tm := Sym(c.freshName(name), s)
		st.assume(typeFacts(tm, t))
		return SV{tm, t}
	case *types.Array:
		tm := Sym(c.freshName(name), c.sortOf(t))
		st.assume(c.arrayTypeInv(tm, t))
		return AV{tm, t}
	case *types.Struct:
		fs := make([]Val, u.NumFields())
		for i := 0; i < u.NumFields(); i++ {
			fs[i] = c.freshVal(st, name+"."+u.Field(i).Name(), u.Field(i).Type())
		}
		return TV{fs, t}
	case *types.Slice:
		if _, isPtr := u.Elem().Underlying().(*types.Pointer); isPtr {
			// a slice of pointers is carried as one abstract value (only passed along, never destructured)
			return SV{Sym(c.freshName(name), abstractSort(t)), t}
		}
		return c.freshSlice(st, name, u.Elem(), t, false)
	case *types.Pointer:
		cell := c.newCell(st, c.freshVal(st, name+"^", u.Elem()))
		return PV{Cell: cell, IsNil: False(), Typ: t}
	case *types.Interface:
		tm := Sym(c.freshName(name), c.sortOf(t))
		return SV{tm, t}
	case *types.Map:
		ks := c.sortOf(u.Key())
		return FV{Present: Sym(c.freshName(name+"$has"), Sort("(Array "+string(ks)+" Bool)")), Value: Sym(c.freshName(name+"$val"), Sort("(Array "+string(ks)+" "+string(c.sortOf(u.Elem()))+")")), Typ: t}
	}
	fail("freshVal: type %s", t)
	return nil
}

// No object of 2^40 bytes or more exists in a process (assumption, listed under T9); make() may be asked for up to 2^47.
var maxLen = new(big.Int).Lsh(big.NewInt(1), 40)
var maxMake = new(big.Int).Lsh(big.NewInt(1), 47)

func (c *FCtx) freshSlice(st *State, name string, elem types.Type, t types.Type, str bool) Val {
	var es Sort
	if _, isPtr := elem.Underlying().(*types.Pointer); isPtr {
		fail("slice of pointers (%s) is outside the supported subset", t)
	}
	es = c.sortOf(elem)
	mem := Sym(c.freshName(name+"$mem"), SArr(es))
	cell := c.newCell(st, MV{mem, elem})
	ln := Sym(c.freshName(name+"$len"), SInt)
	st.assume(And(Le(Num(0), ln), Le(ln, NumB(maxLen))))
	st.assume(c.memTypeInv(mem, elem))
	isnil := False()
	if !str {
		isnil = Sym(c.freshName(name+"$nil"), SBool)
		st.assume(Implies(isnil, Eq(ln, Num(0))))
	}
	return LV{Cell: cell, Off: Num(0), Len: ln, Cap: ln, Elem: elem, IsNil: isnil, Str: str, Typ: t}
}

func (c *FCtx) memTypeInv(mem *Term, elem types.Type) *Term {
	b := Sym(c.freshName("q"), SInt)
	cur := Select(mem, b)
	bound := []*Term{b}
	t := elem
	for {
		switch u := t.Underlying().(type) {
		case *types.Array:
			b2 := Sym(c.freshName("q"), SInt)
			bound = append(bound, b2)
			cur = Select(cur, b2)
			t = u.Elem()
			continue
		case *types.Struct:
			if u.NumFields() == 1 && !c.isOpaque(t) {
				t = u.Field(0).Type()
				continue
			}
		}
		break
	}
	k, ok := intKindOf(t)
	if !ok {
		return True()
	}
	return Forall(bound, rangeFact(cur, k), cur)
}

func (c *FCtx) newCell(st *State, v Val) int {
	c.cellSeq++
	st.cells[c.cellSeq] = v
	return c.cellSeq
}

// zeroVal is the Go zero value of t.
func (c *FCtx) zeroVal(st *State, t types.Type) Val {
	if c.isOpaque(t) {
		return SV{Sym("zero$"+string(abstractSort(t)), abstractSort(t)), t}
	}
	switch u := t.Underlying().(type) {
	case *types.Basic:
		if isBool(t) {
			return SV{False(), t}
		}
		if isString(t) {
			cell := c.newCell(st, MV{ConstArr(SArr(SInt), Num(0)), types.Typ[types.Uint8]})
			return LV{Cell: cell, Off: Num(0), Len: Num(0), Cap: Num(0), Elem: types.Typ[types.Uint8], IsNil: False(), Str: true, Typ: t}
		}
		return SV{Num(0), t}
	case *types.Array:
		return AV{c.zeroTerm(t), t}
	case *types.Struct:
		fs := make([]Val, u.NumFields())
		for i := range fs {
			fs[i] = c.zeroVal(st, u.Field(i).Type())
		}
		return TV{fs, t}
	case *types.Slice:
		if _, isPtr := u.Elem().Underlying().(*types.Pointer); isPtr {
			return SV{Sym("zero$"+string(abstractSort(t)), abstractSort(t)), t}
		}
		cell := c.newCell(st, MV{c.zeroMem(u.Elem()), u.Elem()})
		return LV{Cell: cell, Off: Num(0), Len: Num(0), Cap: Num(0), Elem: u.Elem(), IsNil: True(), Typ: t}
	case *types.Pointer:
		return PV{Cell: 0, IsNil: True(), Typ: t}
	case *types.Interface:
		if isErrorType(t) {
			return SV{False(), t}
		}
		return SV{Sym("zero$"+string(abstractSort(t)), abstractSort(t)), t}
	case *types.Map:
		fail("zero map value")
	}
	fail("zeroVal: type %s", t)
	return nil
}

func (c *FCtx) zeroTerm(t types.Type) *Term {
	switch u := t.Underlying().(type) {
	case *types.Basic:
		if isBool(t) {
			return False()
		}
		return Num(0)
	case *types.Array:
		return ConstArr(c.sortOf(t), c.zeroTerm(u.Elem()))
	case *types.Struct:
		if u.NumFields() == 1 {
			return c.zeroTerm(u.Field(0).Type())
		}
	}
	fail("zeroTerm: type %s", t)
	return nil
}

func (c *FCtx) zeroMem(elem types.Type) *Term {
	return ConstArr(SArr(c.sortOf(elem)), c.zeroTerm(elem))
}

// ---- ite / merge -----------------------------------------------------------------------------------------

func (c *FCtx) valIte(cond *Term, a, b Val) (Val, bool) {
	switch x := a.(type) {
	case SV:
		y, ok := b.(SV)
		if !ok || x.T.S != y.T.S {
			return nil, false
		}
		return SV{Ite(cond, x.T, y.T), x.Typ}, true
	case AV:
		y, ok := b.(AV)
		if !ok {
			return nil, false
		}
		return AV{Ite(cond, x.T, y.T), x.Typ}, true
	case MV:
		y, ok := b.(MV)
		if !ok {
			return nil, false
		}
		return MV{Ite(cond, x.T, y.T), x.Elem}, true
	case TV:
		y, ok := b.(TV)
		if !ok || len(x.Fs) != len(y.Fs) {
			return nil, false
		}
		fs := make([]Val, len(x.Fs))
		for i := range fs {
			v, ok := c.valIte(cond, x.Fs[i], y.Fs[i])
			if !ok {
				return nil, false
			}
			fs[i] = v
		}
		return TV{fs, x.Typ}, true
	case LV:
		y, ok := b.(LV)
		if ok && x.IsNil.IsTrue() && !y.IsNil.IsTrue() {
			r := y
			r.IsNil = Ite(cond, True(), y.IsNil)
			r.Len = Ite(cond, Num(0), y.Len)
			r.Cap = Ite(cond, Num(0), y.Cap)
			return r, true
		}
		if ok && y.IsNil.IsTrue() && !x.IsNil.IsTrue() {
			r := x
			r.IsNil = Ite(cond, x.IsNil, True())
			r.Len = Ite(cond, x.Len, Num(0))
			r.Cap = Ite(cond, x.Cap, Num(0))
			return r, true
		}
		if !ok || x.Cell != y.Cell || !samePath(x.Path, y.Path) {
			return nil, false
		}
		var abs *Term
		if x.Abs != nil && y.Abs != nil {
			abs = Ite(cond, x.Abs, y.Abs)
		}
		return LV{Path: x.Path, Cell: x.Cell, Off: Ite(cond, x.Off, y.Off), Len: Ite(cond, x.Len, y.Len), Cap: Ite(cond, x.Cap, y.Cap), Elem: x.Elem, IsNil: Ite(cond, x.IsNil, y.IsNil), Str: x.Str, Typ: x.Typ, Abs: abs}, true
	case PV:
		y, ok := b.(PV)
		if ok && x.IsNil.IsTrue() && !y.IsNil.IsTrue() {
			return PV{Cell: y.Cell, Path: y.Path, IsNil: Ite(cond, True(), y.IsNil), Typ: y.Typ}, true
		}
		if ok && y.IsNil.IsTrue() && !x.IsNil.IsTrue() {
			return PV{Cell: x.Cell, Path: x.Path, IsNil: Ite(cond, x.IsNil, True()), Typ: x.Typ}, true
		}
		if !ok || x.Cell != y.Cell || len(x.Path) != len(y.Path) {
			return nil, false
		}
		p := make([]Sel, len(x.Path))
		for i := range p {
			if x.Path[i].IsIdx != y.Path[i].IsIdx || x.Path[i].Field != y.Path[i].Field {
				return nil, false
			}
			p[i] = x.Path[i]
			if p[i].IsIdx {
				p[i].Idx = Ite(cond, x.Path[i].Idx, y.Path[i].Idx)
			}
		}
		return PV{Cell: x.Cell, Path: p, IsNil: Ite(cond, x.IsNil, y.IsNil), Typ: x.Typ}, true
	case FV:
		y, ok := b.(FV)
		if !ok {
			return nil, false
		}
		return FV{Ite(cond, x.Present, y.Present), Ite(cond, x.Value, y.Value), x.Typ}, true
	case TXV:
		y, ok := b.(TXV)
		if !ok {
			return nil, false
		}
		return TXV{Ite(cond, x.T, y.T), x.Typ}, true
	case XV:
		y, ok := b.(XV)
		if !ok || x.Kind != y.Kind {
			return nil, false
		}
		return XV{Kind: x.Kind, Arr: Ite(cond, x.Arr, y.Arr), Len: Ite(cond, x.Len, y.Len), RPos: Ite(cond, x.RPos, y.RPos), Typ: x.Typ}, true
	}
	return nil, false
}

func sameVal(a, b Val) bool {
	switch x := a.(type) {
	case SV:
		y, ok := b.(SV)
		return ok && x.T == y.T
	case AV:
		y, ok := b.(AV)
		return ok && x.T == y.T
	case MV:
		y, ok := b.(MV)
		return ok && x.T == y.T
	case TV:
		y, ok := b.(TV)
		if !ok || len(x.Fs) != len(y.Fs) {
			return false
		}
		for i := range x.Fs {
			if !sameVal(x.Fs[i], y.Fs[i]) {
				return false
			}
		}
		return true
	case LV:
		y, ok := b.(LV)
		return ok && x.Cell == y.Cell && x.Off == y.Off && x.Len == y.Len && x.Cap == y.Cap && x.IsNil == y.IsNil && samePath(x.Path, y.Path)
	case PV:
		y, ok := b.(PV)
		if !ok || x.Cell != y.Cell || len(x.Path) != len(y.Path) || x.IsNil != y.IsNil {
			return false
		}
		for i := range x.Path {
			if x.Path[i] != y.Path[i] {
				return false
			}
		}
		return true
	case FV:
		y, ok := b.(FV)
		return ok && x.Present == y.Present && x.Value == y.Value
	case XV:
		y, ok := b.(XV)
		return ok && x.Kind == y.Kind && x.Arr == y.Arr && x.Len == y.Len && x.RPos == y.RPos
	case TXV:
		y, ok := b.(TXV)
		return ok && x.T == y.T
	}
	return false
}

// merge joins two states that forked at condition cond after a common prefix of `prefix` pc entries.
func (c *FCtx) merge(cond *Term, a, b *State, prefix int) (*State, bool) {
	n := &State{vars: map[types.Object]int{}, cells: map[int]Val{}, written: map[int]bool{}}
	for k, v := range a.vars {
		if w, ok := b.vars[k]; ok {
			if v != w {
				return nil, false
			}
			n.vars[k] = v
		}
	}
	ids := map[int]bool{}
	for k := range a.cells {
		ids[k] = true
	}
	for k := range b.cells {
		ids[k] = true
	}
	keys := make([]int, 0, len(ids))
	for k := range ids {
		keys = append(keys, k)
	}
	sort.Ints(keys)
	for _, k := range keys {
		va, oka := a.cells[k]
		vb, okb := b.cells[k]
		switch {
		case oka && okb:
			if sameVal(va, vb) {
				n.cells[k] = va
			} else {
				v, ok := c.valIte(cond, va, vb)
				if !ok {
					return nil, false
				}
				n.cells[k] = v
			}
		case oka:
			n.cells[k] = va
		default:
			n.cells[k] = vb
		}
	}
	for k := range a.written {
		n.written[k] = true
	}
	for k := range b.written {
		n.written[k] = true
	}
	for _, src := range []*State{a, b} {
		for k, m := range src.wfields {
			if n.wfields == nil {
				n.wfields = map[int]map[int]bool{}
			}
			if n.wfields[k] == nil {
				n.wfields[k] = map[int]bool{}
			}
			for f := range m {
				n.wfields[k][f] = true
			}
		}
	}
	if prefix > len(a.pc) || prefix > len(b.pc) {
		return nil, false
	}
	n.pc = append([]*Term(nil), a.pc[:prefix]...)
	// the fork condition itself is pc[prefix] in both (cond / not cond); keep the rest guarded
	for _, h := range a.pc[prefix:] {
		if sameTerm(h, cond) {
			continue
		}
		n.pc = append(n.pc, Implies(cond, h))
	}
	nc := Not(cond)
	for _, h := range b.pc[prefix:] {
		if sameTerm(h, nc) {
			continue
		}
		n.pc = append(n.pc, Implies(nc, h))
	}
	return n, true
}

func samePath(a, b []Sel) bool {
	if len(a) != len(b) {
		return false
	}
	for i := range a {
		if a[i].IsIdx != b[i].IsIdx || a[i].Field != b[i].Field {
			return false
		}
		if a[i].IsIdx && !sameTerm(a[i].Idx, b[i].Idx) {
			return false
		}
	}
	return true
}
