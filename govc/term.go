package main

// SMT term language: a small s-expression tree with sorts, a constant folder and a printer.
// Machine integers are NEVER mathematical here: every Go operation is wrapped by the
// generator (see exec.go); this file only knows about Int/Bool/Array/uninterpreted sorts.

import (
	"sync"
	"fmt"
	"math/big"
	"sort"
	"strings"
)

type Sort string

const (
	SInt  Sort = "Int"
	SBool Sort = "Bool"
)

func SArr(elem Sort) Sort { return Sort("(Array Int " + string(elem) + ")") }
func (s Sort) IsArr() bool { return strings.HasPrefix(string(s), "(Array Int ") }
func (s Sort) Elem() Sort {
	if !s.IsArr() {
		panic("Elem of non-array sort " + string(s))
	}
	return Sort(strings.TrimSuffix(strings.TrimPrefix(string(s), "(Array Int "), ")"))
}

type Term struct {
	Op   string  // operator or symbol name; for numerals Op=="num"
	Args []*Term
	S    Sort
	Num  *big.Int // when Op=="num"
	// for quantifiers: Op=="forall"/"exists", Bound holds the variables, Args[0] the body
	Bound []*Term
	Pat   []*Term // optional :pattern terms
	Alts  [][]*Term // optional alternative multi-patterns given in the contract (`forall i, q {A[32*i+q]} {f(i)[q]} :: ...`)
}

func Num(n int64) *Term        { return &Term{Op: "num", S: SInt, Num: big.NewInt(n)} }
func NumB(n *big.Int) *Term    { return &Term{Op: "num", S: SInt, Num: new(big.Int).Set(n)} }
func Sym(name string, s Sort) *Term { return &Term{Op: name, S: s} }
func True() *Term              { return &Term{Op: "true", S: SBool} }
func False() *Term             { return &Term{Op: "false", S: SBool} }
func Pow2(k uint) *Term        { return NumB(new(big.Int).Lsh(big.NewInt(1), k)) }

func (t *Term) IsNum() bool   { return t.Op == "num" }
func (t *Term) IsTrue() bool  { return t.Op == "true" }
func (t *Term) IsFalse() bool { return t.Op == "false" }

func App(op string, s Sort, args ...*Term) *Term { return &Term{Op: op, S: s, Args: args} }

func sameTerm(a, b *Term) bool {
	if a == b {
		return true
	}
	if a.Op != b.Op || len(a.Args) != len(b.Args) || a.S != b.S || len(a.Bound) != len(b.Bound) {
		return false
	}
	if a.Op == "num" {
		return a.Num.Cmp(b.Num) == 0
	}
	for i := range a.Bound {
		if !sameTerm(a.Bound[i], b.Bound[i]) {
			return false
		}
	}
	for i := range a.Args {
		if !sameTerm(a.Args[i], b.Args[i]) {
			return false
		}
	}
	return true
}

// ---- smart constructors with constant folding -------------------------------------------

func Add(a, b *Term) *Term {
	if a.IsNum() && b.IsNum() {
		return NumB(new(big.Int).Add(a.Num, b.Num))
	}
	if a.IsNum() && a.Num.Sign() == 0 {
		return b
	}
	if b.IsNum() && b.Num.Sign() == 0 {
		return a
	}
	// (x + c1) + c2
	if b.IsNum() && a.Op == "+" && len(a.Args) == 2 && a.Args[1].IsNum() {
		return Add(a.Args[0], NumB(new(big.Int).Add(a.Args[1].Num, b.Num)))
	}
	return App("+", SInt, a, b)
}
func Sub(a, b *Term) *Term {
	if a.IsNum() && b.IsNum() {
		return NumB(new(big.Int).Sub(a.Num, b.Num))
	}
	if b.IsNum() && b.Num.Sign() == 0 {
		return a
	}
	if b.IsNum() {
		return Add(a, NumB(new(big.Int).Neg(b.Num)))
	}
	if sameTerm(a, b) {
		return Num(0)
	}
	return App("-", SInt, a, b)
}
func Neg(a *Term) *Term { return Sub(Num(0), a) }
func Mul(a, b *Term) *Term {
	if a.IsNum() && b.IsNum() {
		return NumB(new(big.Int).Mul(a.Num, b.Num))
	}
	if a.IsNum() && a.Num.Sign() == 0 || b.IsNum() && b.Num.Sign() == 0 {
		return Num(0)
	}
	if a.IsNum() && a.Num.Cmp(big.NewInt(1)) == 0 {
		return b
	}
	if b.IsNum() && b.Num.Cmp(big.NewInt(1)) == 0 {
		return a
	}
	if b.IsNum() && !a.IsNum() {
		return App("*", SInt, b, a)
	}
	return App("*", SInt, a, b)
}

// Euclidean div/mod as in SMT-LIB (divisor must be a non-zero numeral for folding).
func Div(a, b *Term) *Term {
	if a.IsNum() && b.IsNum() && b.Num.Sign() != 0 {
		q, _ := new(big.Int).DivMod(a.Num, b.Num, new(big.Int))
		return NumB(q)
	}
	if b.IsNum() && b.Num.Cmp(big.NewInt(1)) == 0 {
		return a
	}
	return App("div", SInt, a, b)
}
func Mod(a, b *Term) *Term {
	if a.IsNum() && b.IsNum() && b.Num.Sign() != 0 {
		_, m := new(big.Int).DivMod(a.Num, b.Num, new(big.Int))
		return NumB(m)
	}
	if b.IsNum() && b.Num.Cmp(big.NewInt(1)) == 0 {
		return Num(0)
	}
	return App("mod", SInt, a, b)
}

func cmpFold(op string, a, b *Term) *Term {
	if a.IsNum() && b.IsNum() {
		c := a.Num.Cmp(b.Num)
		var r bool
		switch op {
		case "<":
			r = c < 0
		case "<=":
			r = c <= 0
		case ">":
			r = c > 0
		case ">=":
			r = c >= 0
		}
		if r {
			return True()
		}
		return False()
	}
	return App(op, SBool, a, b)
}
func Lt(a, b *Term) *Term { return cmpFold("<", a, b) }
func Le(a, b *Term) *Term { return cmpFold("<=", a, b) }
func Gt(a, b *Term) *Term { return cmpFold(">", a, b) }
func Ge(a, b *Term) *Term { return cmpFold(">=", a, b) }
func Eq(a, b *Term) *Term {
	if a.S != b.S {
		panic(fmt.Sprintf("Eq: sort mismatch %s vs %s (%s, %s)", a.S, b.S, a, b))
	}
	if a.IsNum() && b.IsNum() {
		if a.Num.Cmp(b.Num) == 0 {
			return True()
		}
		return False()
	}
	if sameTerm(a, b) {
		return True()
	}
	if a.S == SBool {
		if a.IsTrue() {
			return b
		}
		if b.IsTrue() {
			return a
		}
		if a.IsFalse() {
			return Not(b)
		}
		if b.IsFalse() {
			return Not(a)
		}
	}
	return App("=", SBool, a, b)
}
func Ne(a, b *Term) *Term { return Not(Eq(a, b)) }
func Not(a *Term) *Term {
	if a.IsTrue() {
		return False()
	}
	if a.IsFalse() {
		return True()
	}
	if a.Op == "not" {
		return a.Args[0]
	}
	return App("not", SBool, a)
}
func And(xs ...*Term) *Term {
	var out []*Term
	for _, x := range xs {
		if x.IsTrue() {
			continue
		}
		if x.IsFalse() {
			return False()
		}
		if x.Op == "and" {
			out = append(out, x.Args...)
		} else {
			out = append(out, x)
		}
	}
	if len(out) == 0 {
		return True()
	}
	if len(out) == 1 {
		return out[0]
	}
	return App("and", SBool, out...)
}
func Or(xs ...*Term) *Term {
	var out []*Term
	for _, x := range xs {
		if x.IsFalse() {
			continue
		}
		if x.IsTrue() {
			return True()
		}
		if x.Op == "or" {
			out = append(out, x.Args...)
		} else {
			out = append(out, x)
		}
	}
	if len(out) == 0 {
		return False()
	}
	if len(out) == 1 {
		return out[0]
	}
	return App("or", SBool, out...)
}
func Implies(a, b *Term) *Term {
	if a.IsTrue() {
		return b
	}
	if a.IsFalse() || b.IsTrue() {
		return True()
	}
	if b.IsFalse() {
		return Not(a)
	}
	return App("=>", SBool, a, b)
}
func Ite(c, a, b *Term) *Term {
	if c.IsTrue() {
		return a
	}
	if c.IsFalse() {
		return b
	}
	if sameTerm(a, b) {
		return a
	}
	if a.S != b.S {
		panic(fmt.Sprintf("Ite: sort mismatch %s vs %s", a.S, b.S))
	}
	if a.S == SBool {
		if a.IsTrue() && b.IsFalse() {
			return c
		}
		if a.IsFalse() && b.IsTrue() {
			return Not(c)
		}
	}
	return App("ite", a.S, c, a, b)
}
// genericElem: element sort of "(Array K V)" for any key sort.
func genericElem(s Sort) (Sort, bool) {
	str := string(s)
	if !strings.HasPrefix(str, "(Array ") {
		return "", false
	}
	body := str[len("(Array ") : len(str)-1]
	depth := 0
	for i, c := range body {
		switch c {
		case '(':
			depth++
		case ')':
			depth--
		case ' ':
			if depth == 0 {
				return Sort(body[i+1:]), true
			}
		}
	}
	return "", false
}

func Select(a, i *Term) *Term {
	if !a.S.IsArr() {
		if es, ok := genericElem(a.S); ok {
			return App("select", es, a, i)
		}
		panic("Select on non-array: " + a.String())
	}
	// read-over-write with syntactically decidable indices
	for a.Op == "store" {
		j := a.Args[1]
		if sameTerm(i, j) {
			return a.Args[2]
		}
		if d, ok := constDiff(i, j); ok && d != 0 {
			a = a.Args[0]
			continue
		}
		break
	}
	if a.Op == "constarr" {
		return a.Args[0]
	}
	return App("select", a.S.Elem(), a, i)
}

// constDiff returns (i-j, true) when the two index terms differ by a syntactic constant.
func constDiff(i, j *Term) (int64, bool) {
	bi, ci := splitConst(i)
	bj, cj := splitConst(j)
	if bi == nil && bj == nil {
		return ci - cj, true
	}
	if bi != nil && bj != nil && sameTerm(bi, bj) {
		return ci - cj, true
	}
	return 0, false
}
func splitConst(t *Term) (*Term, int64) {
	if t.IsNum() {
		if t.Num.IsInt64() {
			return nil, t.Num.Int64()
		}
		return t, 0
	}
	if t.Op == "+" && len(t.Args) == 2 && t.Args[1].IsNum() && t.Args[1].Num.IsInt64() {
		return t.Args[0], t.Args[1].Num.Int64()
	}
	return t, 0
}
func Store(a, i, v *Term) *Term {
	if !a.S.IsArr() {
		panic("Store on non-array")
	}
	if a.S.Elem() != v.S {
		panic(fmt.Sprintf("Store: element sort mismatch %s vs %s", a.S.Elem(), v.S))
	}
	return App("store", a.S, a, i, v)
}
func ConstArr(s Sort, v *Term) *Term { return App("constarr", s, v) }

func Forall(bound []*Term, body *Term, pats ...*Term) *Term {
	if body.IsTrue() {
		return body
	}
	if len(bound) == 0 {
		return body
	}
	if len(pats) == 0 {
		if t, ok := expandSmallRange(bound, body, true); ok {
			return t
		}
		vs := reindexVariants(bound, body, reindexAllBound)
		if len(vs) > 1 {
			var cs []*Term
			for k, v := range vs {
				q := &Term{Op: "forall", S: SBool, Bound: bound, Args: []*Term{v}}
				if k > 0 {
					variantMu.Lock()
					variantTerm[q] = true
					variantMu.Unlock()
				}
				cs = append(cs, q)
			}
			return And(cs...)
		}
	}
	return &Term{Op: "forall", S: SBool, Bound: bound, Args: []*Term{body}, Pat: pats}
}
func Exists(bound []*Term, body *Term) *Term {
	if body.IsFalse() {
		return body
	}
	if len(bound) == 0 {
		return body
	}
	if t, ok := expandSmallRange(bound, body, false); ok {
		return t
	}
	if vs := reindexVariants(bound, body, false); len(vs) > 1 {
		body = vs[1]
	}
	return &Term{Op: "exists", S: SBool, Bound: bound, Args: []*Term{body}}
}

// ---- substitution / traversal ------------------------------------------------------------

func (t *Term) Subst(m map[string]*Term) *Term {
	if len(m) == 0 {
		return t
	}
	if len(t.Args) == 0 && t.Op != "num" {
		if r, ok := m[t.Op]; ok {
			return r
		}
		return t
	}
	if t.Op == "num" {
		return t
	}
	mm := m
	if len(t.Bound) > 0 {
		mm = map[string]*Term{}
		for k, v := range m {
			mm[k] = v
		}
		for _, b := range t.Bound {
			delete(mm, b.Op)
		}
	}
	changed := false
	args := make([]*Term, len(t.Args))
	for i, a := range t.Args {
		args[i] = a.Subst(mm)
		if args[i] != a {
			changed = true
		}
	}
	var pats []*Term
	for _, p := range t.Pat {
		q := p.Subst(mm)
		if q != p {
			changed = true
		}
		pats = append(pats, q)
	}
	var alts [][]*Term
	for _, alt := range t.Alts {
		var na []*Term
		for _, p := range alt {
			q := p.Subst(mm)
			if q != p {
				changed = true
			}
			na = append(na, q)
		}
		alts = append(alts, na)
	}
	if !changed {
		return t
	}
	r := rebuild(t, args, pats)
	if len(alts) > 0 && (r.Op == "forall" || r.Op == "exists") {
		r = &Term{Op: r.Op, S: r.S, Args: r.Args, Bound: r.Bound, Pat: r.Pat, Alts: alts, Num: r.Num}
	}
	return r
}

func rebuild(t *Term, args []*Term, pats []*Term) *Term {
	switch t.Op {
	case "+":
		if len(args) == 2 {
			return Add(args[0], args[1])
		}
	case "-":
		if len(args) == 2 {
			return Sub(args[0], args[1])
		}
	case "*":
		if len(args) == 2 {
			return Mul(args[0], args[1])
		}
	case "div":
		return Div(args[0], args[1])
	case "mod":
		return Mod(args[0], args[1])
	case "<":
		return Lt(args[0], args[1])
	case "<=":
		return Le(args[0], args[1])
	case ">":
		return Gt(args[0], args[1])
	case ">=":
		return Ge(args[0], args[1])
	case "=":
		return Eq(args[0], args[1])
	case "not":
		return Not(args[0])
	case "and":
		return And(args...)
	case "or":
		return Or(args...)
	case "=>":
		return Implies(args[0], args[1])
	case "ite":
		return Ite(args[0], args[1], args[2])
	case "select":
		return Select(args[0], args[1])
	}
	return &Term{Op: t.Op, S: t.S, Args: args, Bound: t.Bound, Pat: pats, Alts: t.Alts, Num: t.Num}
}

// FreeSyms collects free symbols (0-ary non-numeral leaves and applied function heads that are
// not built-in) into syms (name -> sort signature string for declaration).
type symInfo struct {
	Name string
	Args []Sort
	Res  Sort
}

var builtinOps = map[string]bool{
	"+": true, "-": true, "*": true, "div": true, "mod": true, "<": true, "<=": true, ">": true, ">=": true,
	"=": true, "not": true, "and": true, "or": true, "=>": true, "ite": true, "select": true, "store": true,
	"true": true, "false": true, "num": true, "forall": true, "exists": true, "constarr": true, "abs": true,
	"distinct": true,
}

func (t *Term) collectSyms(bound map[string]bool, out map[string]symInfo) {
	if t.Op == "num" {
		return
	}
	if len(t.Bound) > 0 {
		nb := map[string]bool{}
		for k := range bound {
			nb[k] = true
		}
		for _, b := range t.Bound {
			nb[b.Op] = true
		}
		bound = nb
	}
	if !builtinOps[t.Op] && !bound[t.Op] {
		if _, ok := out[t.Op]; !ok {
			si := symInfo{Name: t.Op, Res: t.S}
			for _, a := range t.Args {
				si.Args = append(si.Args, a.S)
			}
			out[t.Op] = si
		}
	}
	for _, a := range t.Args {
		a.collectSyms(bound, out)
	}
	for _, p := range t.Pat {
		p.collectSyms(bound, out)
	}
	for _, alt := range t.Alts {
		for _, p := range alt {
			p.collectSyms(bound, out)
		}
	}
}

// ---- printing -----------------------------------------------------------------------------

func (t *Term) String() string {
	var sb strings.Builder
	t.write(&sb)
	return sb.String()
}

func smtName(s string) string {
	ok := true
	for _, c := range s {
		if !(c >= 'a' && c <= 'z' || c >= 'A' && c <= 'Z' || c >= '0' && c <= '9' || strings.ContainsRune("_.$!@#%^&*-+<>=/?~", c)) {
			ok = false
			break
		}
	}
	if ok && len(s) > 0 && !(s[0] >= '0' && s[0] <= '9') {
		return s
	}
	return "|" + s + "|"
}

func (t *Term) write(sb *strings.Builder) {
	switch t.Op {
	case "num":
		if t.Num.Sign() < 0 {
			sb.WriteString("(- ")
			sb.WriteString(new(big.Int).Neg(t.Num).String())
			sb.WriteString(")")
		} else {
			sb.WriteString(t.Num.String())
		}
		return
	case "constarr":
		sb.WriteString("((as const ")
		sb.WriteString(string(t.S))
		sb.WriteString(") ")
		t.Args[0].write(sb)
		sb.WriteString(")")
		return
	case "forall", "exists":
		sb.WriteString("(")
		sb.WriteString(t.Op)
		sb.WriteString(" (")
		for _, b := range t.Bound {
			sb.WriteString("(")
			sb.WriteString(smtName(b.Op))
			sb.WriteString(" ")
			sb.WriteString(string(b.S))
			sb.WriteString(")")
		}
		sb.WriteString(") ")
		var alts [][]*Term
		if len(t.Alts) > 0 {
			alts = t.Alts
		} else if len(t.Pat) > 0 {
			alts = [][]*Term{t.Pat}
		} else if t.Op == "forall" && explicitTriggers {
			alts = inferAltPatterns(t)
		}
		if len(alts) > 0 {
			sb.WriteString("(! ")
		}
		t.Args[0].write(sb)
		for _, alt := range alts {
			sb.WriteString(" :pattern (")
			for i, p := range alt {
				if i > 0 {
					sb.WriteString(" ")
				}
				p.write(sb)
			}
			sb.WriteString(")")
		}
		if len(alts) > 0 {
			sb.WriteString(")")
		}
		sb.WriteString(")")
		return
	}
	if len(t.Args) == 0 {
		sb.WriteString(smtName(t.Op))
		return
	}
	sb.WriteString("(")
	if builtinOps[t.Op] {
		sb.WriteString(t.Op)
	} else {
		sb.WriteString(smtName(t.Op))
	}
	for _, a := range t.Args {
		sb.WriteString(" ")
		a.write(sb)
	}
	sb.WriteString(")")
}

func sortedSyms(m map[string]symInfo) []symInfo {
	var ks []string
	for k := range m {
		ks = append(ks, k)
	}
	sort.Strings(ks)
	var out []symInfo
	for _, k := range ks {
		out = append(out, m[k])
	}
	return out
}

// ---- quantifier re-indexing ------------------------------------------------------------------------
// forall k. P(A[c + k]) is rewritten to forall k'. P'(A[k']) with k = k' - c when every array index that
// mentions k has the shape c + k for one and the same c.  This is a change of bound variable (sound and
// complete); it makes the quantifier instantiable by E-matching on A[k'] (offsets come from sub-slices).

func mentions(t *Term, name string) bool {
	if len(t.Args) == 0 {
		return t.Op == name
	}
	for _, b := range t.Bound {
		if b.Op == name {
			return false
		}
	}
	for _, a := range t.Args {
		if mentions(a, name) {
			return true
		}
	}
	return false
}

func flattenSum(t *Term, out *[]*Term) {
	if t.Op == "+" {
		for _, a := range t.Args {
			flattenSum(a, out)
		}
		return
	}
	*out = append(*out, t)
}

// splitIndex: idx = b + rest with rest free of b; ok=false otherwise.
func splitIndex(idx *Term, b string) (rest *Term, ok bool) {
	var parts []*Term
	flattenSum(idx, &parts)
	found := false
	rest = Num(0)
	for _, p := range parts {
		if len(p.Args) == 0 && p.Op == b {
			if found {
				return nil, false
			}
			found = true
			continue
		}
		if mentions(p, b) {
			return nil, false
		}
		rest = Add(rest, p)
	}
	return rest, found
}

func collectIdx(t *Term, b string, out *[]*Term) {
	if t.Op == "select" && mentions(t.Args[1], b) {
		*out = append(*out, t.Args[1])
	}
	for _, a := range t.Args {
		collectIdx(a, b, out)
	}
}

func reindexBody(t *Term, b *Term, rest *Term) *Term {
	if len(t.Args) == 0 {
		if t.Op == b.Op {
			return Sub(b, rest)
		}
		return t
	}
	if t.Op == "select" && mentions(t.Args[1], b.Op) {
		if r, ok := splitIndex(t.Args[1], b.Op); ok && sameTerm(r, rest) {
			return Select(reindexBody(t.Args[0], b, rest), b)
		}
	}
	args := make([]*Term, len(t.Args))
	for i, a := range t.Args {
		args[i] = reindexBody(a, b, rest)
	}
	return rebuild(t, args, nil)
}

// reindexVariants returns equivalent bodies of a quantifier over `bound`, one per distinct offset c found in
// array indices of the shape c + b (b bound): in variant c every such index is the bare variable.
// reindexAllBound: universal quantifiers get variants for every bound variable (each re-indexed on its own), not only
// for the first one that has an offset index: a hypothesis such as canonOrder (rows i_, positions p_) must be
// matchable from a bare position term as well as from a bare row term.
var reindexAllBound = true
var noSiblingVariants = false // experiment: wotsSign loop[3]/assert[2] needs such a variant; kept off

func mentionsAny(t *Term, bound []*Term) bool {
	if len(t.Args) == 0 {
		for _, b := range bound {
			if t.Op == b.Op {
				return true
			}
		}
		return false
	}
	for _, a := range t.Args {
		if mentionsAny(a, bound) {
			return true
		}
	}
	return false
}

func reindexVariants(bound []*Term, body *Term, all bool) []*Term {
	out := []*Term{body}
	for _, b := range bound {
		var idxs []*Term
		collectIdx(body, b.Op, &idxs)
		var rests []*Term
		for _, ix := range idxs {
			r, good := splitIndex(ix, b.Op)
			if !good || (r.IsNum() && r.Num.Sign() == 0) {
				continue
			}
			if mentionsInnerBound(body, r) {
				continue // the offset uses a variable bound by a quantifier inside the body: it cannot be moved out of its scope
			}
			if noSiblingVariants && mentionsAny(r, bound) {
				// the offset depends on another variable of the same quantifier (A[32*i+q] re-indexed on q): the variant's
				// only trigger is the cross product of every `select A x` with every term that fixes i - thousands of
				// instances for no proof that needed them
				continue
			}
			dup := false
			for _, x := range rests {
				if sameTerm(x, r) {
					dup = true
				}
			}
			if !dup && len(rests) < 3 {
				rests = append(rests, r)
			}
		}
		for _, r := range rests {
			out = append(out, reindexBody(body, b, r))
		}
		if len(rests) > 0 && !all {
			break // one bound variable is re-indexed per quantifier
		}
	}
	return out
}

// expandSmallRange: forall q. (c1 <= q && q < c2 [&& more]) => P  with constant bounds and at most 8 values
// becomes the finite conjunction (and dually for exists): fewer quantifiers for the solvers, same meaning.
func constBounds(guard *Term, b string) (lo, hi int64, rest []*Term, ok bool) {
	var parts []*Term
	if guard.Op == "and" {
		parts = guard.Args
	} else {
		parts = []*Term{guard}
	}
	haveLo, haveHi := false, false
	for _, p := range parts {
		isB := func(t *Term) bool { return len(t.Args) == 0 && t.Op == b }
		switch {
		case p.Op == "<=" && p.Args[0].IsNum() && isB(p.Args[1]) && p.Args[0].Num.IsInt64() && !haveLo:
			lo, haveLo = p.Args[0].Num.Int64(), true
		case p.Op == "<" && isB(p.Args[0]) && p.Args[1].IsNum() && p.Args[1].Num.IsInt64() && !haveHi:
			hi, haveHi = p.Args[1].Num.Int64(), true
		case p.Op == "<=" && isB(p.Args[0]) && p.Args[1].IsNum() && p.Args[1].Num.IsInt64() && !haveHi:
			hi, haveHi = p.Args[1].Num.Int64()+1, true
		default:
			rest = append(rest, p)
		}
	}
	return lo, hi, rest, haveLo && haveHi
}

func expandSmallRange(bound []*Term, body *Term, universal bool) (*Term, bool) {
	return expandRange(bound, body, universal, 8)
}

func expandRange(bound []*Term, body *Term, universal bool, limit int64) (*Term, bool) {
	if len(bound) != 1 {
		return nil, false
	}
	b := bound[0]
	var guard, inner *Term
	if universal {
		if body.Op != "=>" {
			return nil, false
		}
		guard, inner = body.Args[0], body.Args[1]
	} else {
		if body.Op != "and" {
			return nil, false
		}
		guard, inner = body, True()
	}
	lo, hi, rest, ok := constBounds(guard, b.Op)
	if !ok || hi-lo > limit || hi-lo < 0 {
		return nil, false
	}
	var parts []*Term
	for v := lo; v < hi; v++ {
		m := map[string]*Term{b.Op: Num(v)}
		if universal {
			parts = append(parts, Implies(And(rest...).Subst(m), inner.Subst(m)))
		} else {
			parts = append(parts, And(rest...).Subst(m))
		}
	}
	if universal {
		return And(parts...), true
	}
	return Or(parts...), true
}

// mentionsInnerBound: does r use a variable that is bound by some quantifier nested inside body?
func mentionsInnerBound(body, r *Term) bool {
	inner := map[string]bool{}
	var walk func(t *Term)
	walk = func(t *Term) {
		for _, b := range t.Bound {
			inner[b.Op] = true
		}
		for _, a := range t.Args {
			walk(a)
		}
	}
	walk(body)
	if len(inner) == 0 {
		return false
	}
	found := false
	var scan func(t *Term)
	scan = func(t *Term) {
		if len(t.Args) == 0 && inner[t.Op] {
			found = true
		}
		for _, a := range t.Args {
			scan(a)
		}
	}
	scan(r)
	return found
}

// Re-indexed variants of a quantified formula are equivalent restatements that help instantiation when the formula
// is a HYPOTHESIS.  As part of a GOAL they only add proof burden, so stripVariants drops them from positive
// positions (conjuncts, consequents, quantifier bodies); this is sound because each variant is implied by the original.
var variantTerm = map[*Term]bool{}
var variantMu sync.Mutex

// expandedFrom maps the finite expansion of a `forallx` clause to the quantified formula it came from (equivalent).
var expandedFrom = map[*Term]*Term{}

func stripVariants(t *Term) *Term {
	variantMu.Lock()
	q, isExp := expandedFrom[t]
	variantMu.Unlock()
	if isExp {
		return q
	}
	switch t.Op {
	case "and":
		var keep []*Term
		changed := false
		variantMu.Lock()
		for _, a := range t.Args {
			if variantTerm[a] {
				changed = true
				continue
			}
			keep = append(keep, a)
		}
		variantMu.Unlock()
		for i, a := range keep {
			b := stripVariants(a)
			if b != a {
				keep[i] = b
				changed = true
			}
		}
		if !changed {
			return t
		}
		return And(keep...)
	case "=>":
		if len(t.Args) == 2 {
			b := stripVariants(t.Args[1])
			if b != t.Args[1] {
				return Implies(t.Args[0], b)
			}
		}
	case "forall":
		if len(t.Args) == 1 {
			b := stripVariants(t.Args[0])
			if b != t.Args[0] {
				return &Term{Op: "forall", S: SBool, Bound: t.Bound, Args: []*Term{b}, Pat: t.Pat, Alts: t.Alts}
			}
		}
	}
	return t
}

// inferAltPatterns: the solvers' own trigger inference avoids terms with arithmetic inside, so a hypothesis such as
//   forall i, q. ... select(M, 32*i + q) == select(F(i), q)
// is left without a usable trigger unless a ground F(i0) happens to exist.  For quantifiers whose body indexes an array
// at a compound arithmetic index that mentions bound variables, explicit alternative triggers are emitted: every
// select / uninterpreted application that mentions all bound variables and contains no logical structure.
// explicitTriggers: disabled.  Measured on the whole suite, replacing the solvers' own trigger inference by explicit
// triggers fixed a few goals and broke many more (explicit :pattern annotations switch automatic inference off for
// that quantifier, and arithmetic subterms in triggers are matched syntactically).
var explicitTriggers = false

func inferAltPatterns(q *Term) [][]*Term {
	bound := map[string]bool{}
	for _, b := range q.Bound {
		bound[b.Op] = true
	}
	special := false
	var cands []*Term
	seen := map[string]bool{}
	var vars func(t *Term, out map[string]bool) bool // returns false if t contains logical structure or quantifiers
	vars = func(t *Term, out map[string]bool) bool {
		switch t.Op {
		case "and", "or", "not", "=>", "ite", "forall", "exists", "=", "<", "<=", ">", ">=", "distinct":
			return false
		}
		if len(t.Args) == 0 {
			if bound[t.Op] {
				out[t.Op] = true
			}
			return true
		}
		for _, a := range t.Args {
			if !vars(a, out) {
				return false
			}
		}
		return true
	}
	var walk func(t *Term)
	walk = func(t *Term) {
		if t.Op == "forall" || t.Op == "exists" {
			return // nested quantifiers keep their own triggers
		}
		for _, a := range t.Args {
			walk(a)
		}
		if len(t.Args) == 0 || t.Op == "num" {
			return
		}
		isApp := t.Op == "select" || !builtinOps[t.Op]
		if !isApp {
			return
		}
		vs := map[string]bool{}
		if !vars(t, vs) || len(vs) == 0 {
			return
		}
		if t.Op == "select" && len(t.Args) == 2 {
			idx := t.Args[1]
			iv := map[string]bool{}
			if (idx.Op == "+" || idx.Op == "-" || idx.Op == "*") && vars(idx, iv) && len(iv) > 0 {
				special = true
			}
		}
		if len(vs) == len(bound) {
			k := t.String()
			if !seen[k] && len(k) < 600 {
				seen[k] = true
				cands = append(cands, t)
			}
		}
	}
	walk(q.Args[0])
	if !special || len(cands) == 0 {
		return nil
	}
	// drop candidates that contain another candidate (prefer the smaller trigger), keep at most 4
	var out [][]*Term
	for _, c := range cands {
		cs := c.String()
		contains := false
		for _, d := range cands {
			if d != c && len(d.String()) < len(cs) && strings.Contains(cs, d.String()) {
				contains = true
			}
		}
		if !contains {
			out = append(out, []*Term{c})
		}
		if len(out) >= 4 {
			break
		}
	}
	return out
}

// stripNegVariants: in a HYPOTHESIS, re-indexed variants help wherever the formula is assumed, but in the positions
// the solver has to PROVE before it can use the hypothesis (premises of implications, negated sub-formulas) they only
// double the work; they are dropped there (sound: a variant is equivalent to the clause it restates, so `H && H'`
// and `H` are the same premise).
func stripNegVariants(t *Term, assumed bool) *Term {
	switch t.Op {
	case "and", "or":
		var keep []*Term
		changed := false
		for _, a := range t.Args {
			if t.Op == "and" && !assumed {
				variantMu.Lock()
				v := variantTerm[a]
				variantMu.Unlock()
				if v {
					changed = true
					continue
				}
			}
			b := stripNegVariants(a, assumed)
			if b != a {
				changed = true
			}
			keep = append(keep, b)
		}
		if !changed {
			return t
		}
		if t.Op == "and" {
			return And(keep...)
		}
		return Or(keep...)
	case "=>":
		if len(t.Args) == 2 {
			a := stripNegVariants(t.Args[0], !assumed)
			b := stripNegVariants(t.Args[1], assumed)
			if a != t.Args[0] || b != t.Args[1] {
				return Implies(a, b)
			}
		}
	case "not":
		if len(t.Args) == 1 {
			a := stripNegVariants(t.Args[0], !assumed)
			if a != t.Args[0] {
				return Not(a)
			}
		}
	case "forall", "exists":
		if len(t.Args) == 1 {
			b := stripNegVariants(t.Args[0], assumed)
			if b != t.Args[0] {
				r := &Term{Op: t.Op, S: SBool, Bound: t.Bound, Args: []*Term{b}, Pat: t.Pat, Alts: t.Alts}
				variantMu.Lock()
				if variantTerm[t] {
					variantTerm[r] = true
				}
				variantMu.Unlock()
				return r
			}
		}
	}
	return t
}

// alphaKey: the rendering of a formula with its bound variables renamed canonically (in order of binding), so that two
// hypotheses that differ only in the names of their bound variables - a callee's postcondition and an anchored
// assertion restating it, the same invariant assumed at two cut points - are recognised as duplicates.
func alphaKey(t *Term) string {
	n := 0
	return alphaNorm(t, &n).String()
}

func alphaNorm(t *Term, ctr *int) *Term {
	if len(t.Args) == 0 {
		return t
	}
	if t.Op == "forall" || t.Op == "exists" {
		m := map[string]*Term{}
		nb := make([]*Term, len(t.Bound))
		for i, b := range t.Bound {
			nb[i] = Sym(fmt.Sprintf("$b%d", *ctr), b.S)
			*ctr++
			m[b.Op] = nb[i]
		}
		body := alphaNorm(t.Args[0].Subst(m), ctr)
		var pats []*Term
		for _, p := range t.Pat {
			pats = append(pats, p.Subst(m))
		}
		var alts [][]*Term
		for _, alt := range t.Alts {
			var na []*Term
			for _, p := range alt {
				na = append(na, p.Subst(m))
			}
			alts = append(alts, na)
		}
		return &Term{Op: t.Op, S: t.S, Bound: nb, Args: []*Term{body}, Pat: pats, Alts: alts}
	}
	changed := false
	args := make([]*Term, len(t.Args))
	for i, a := range t.Args {
		args[i] = alphaNorm(a, ctr)
		if args[i] != a {
			changed = true
		}
	}
	if !changed {
		return t
	}
	return &Term{Op: t.Op, S: t.S, Args: args, Bound: t.Bound, Pat: t.Pat, Alts: t.Alts, Num: t.Num}
}
