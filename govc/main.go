package main

import (
	"encoding/json"
	"flag"
	"fmt"
	"go/ast"
	"go/types"
	"os"
	"path/filepath"
	"sort"
	"strconv"
	"strings"
	"time"
)

const verifRoot = "/verif"

// outRoot: where evidence and replays are written (VERIF_OUT redirects them for experiments on scratch copies of /repo)
func outRoot() string {
	if v := os.Getenv("VERIF_OUT"); v != "" {
		os.MkdirAll(filepath.Join(v, "evidence"), 0o755)
		return v
	}
	return verifRoot
}

func usage() {
	fmt.Fprintln(os.Stderr, `govc — contract-based deductive verifier for /repo (theQRL/go-qrllib)
  govc check -p <Cnn> [-tier quick|thorough]     run the check of one property, write evidence/<id>.json
  govc func  <pkg.Func> ... [-p Cnn] [-v]         verify single functions (debugging)
  govc lemmas [-p Cnn]                            discharge spec-level lemmas only
  govc replay <file>                              re-run a recorded violation
  govc list                                       list contracts and their property tags`)
	os.Exit(2)
}

func main() {
	if len(os.Args) < 2 {
		usage()
	}
	switch os.Args[1] {
	case "check":
		os.Exit(cmdCheck(os.Args[2:]))
	case "func":
		os.Exit(cmdFunc(os.Args[2:]))
	case "lemmas":
		os.Exit(cmdLemmas(os.Args[2:]))
	case "list":
		os.Exit(cmdList(os.Args[2:]))
	case "names":
		os.Exit(cmdNames(os.Args[2:]))
	case "replay":
		os.Exit(cmdReplay(os.Args[2:]))
	case "effects":
		os.Exit(cmdEffects(os.Args[2:]))
	case "bounded":
		e := load()
		rs := e.labelRun([]int{4, 6, 8, 10, 12})
		rs = e.refRun([]int{4, 6}, 1)
		for _, r := range rs {
			fmt.Printf("%+v\n", r)
		}
	default:
		usage()
	}
}

func envOr(k, d string) string {
	if v := os.Getenv(k); v != "" {
		return v
	}
	return d
}

func load() *Engine {
	repo := envOr("VERIF_REPO", "/repo")
	e, err := LoadEngine(repo)
	if err != nil {
		fmt.Fprintln(os.Stderr, "govc: load:", err)
		os.Exit(3)
	}
	if err := e.LoadSpec(filepath.Join(verifRoot, "spec")); err != nil {
		fmt.Fprintln(os.Stderr, "govc: spec:", err)
		os.Exit(3)
	}
	return e
}

func scratchDir() string {
	d, err := os.MkdirTemp("", "govc-")
	if err != nil {
		panic(err)
	}
	return d
}

// calleesOf lists repository functions called (statically) from fi's body, looking through inline callees.
func (e *Engine) calleesOf(fi *FuncInfo, seen map[string]bool, out map[string]bool) {
	if seen[fi.Key] {
		return
	}
	seen[fi.Key] = true
	info := fi.Pkg.TypesInfo
	ast.Inspect(fi.Decl.Body, func(n ast.Node) bool {
		call, ok := n.(*ast.CallExpr)
		if !ok {
			return true
		}
		var fn *types.Func
		switch f := call.Fun.(type) {
		case *ast.Ident:
			fn, _ = info.Uses[f].(*types.Func)
		case *ast.SelectorExpr:
			fn, _ = info.Uses[f.Sel].(*types.Func)
		}
		if fn == nil {
			return true
		}
		key := funcKey(fn)
		cfi, ok := e.funcs[key]
		if !ok {
			return true
		}
		if con := e.cs.Funcs[key]; con != nil && con.Inline {
			e.calleesOf(cfi, seen, out)
		} else {
			out[key] = true
		}
		return true
	})
}

func (e *Engine) closureFor(prop string) []string {
	set := map[string]bool{}
	var work []string
	for k, c := range e.cs.Funcs {
		if c.External {
			continue
		}
		tagged := false
		for _, p := range c.Props {
			if p == prop {
				tagged = true
			}
		}
		// any clause tagged with the property makes the function a root: a tagged loop invariant, exit clause or anchored
		// assertion that no caller in the property's call graph reaches would otherwise never be checked by anyone
		scan := func(cls []*Clause) {
			for _, cl := range cls {
				if cl == nil {
					continue
				}
				for _, t := range cl.Tags {
					if t == prop {
						tagged = true
					}
				}
			}
		}
		scan(c.Ensures)
		scan(c.Exits)
		scan(c.Requires)
		scan(c.Asserts)
		for _, ls := range c.Loops {
			scan(ls.Invs)
			scan(ls.Asserts)
		}
		for _, cls := range c.Afters {
			scan(cls)
		}
		for _, cls := range c.Returns {
			scan(cls)
		}
		for _, cls := range c.Gotos {
			scan(cls)
		}
		for _, pc := range c.Panics {
			if pc.When != nil {
				scan([]*Clause{pc.When})
			}
		}
		if tagged {
			set[k] = true
			work = append(work, k)
		}
	}
	for len(work) > 0 {
		k := work[len(work)-1]
		work = work[:len(work)-1]
		fi := e.funcs[k]
		if fi == nil {
			continue
		}
		if con := e.cs.Funcs[k]; con != nil && con.Trusted != "" {
			// a trusted function's body is not executed symbolically, but its effects clauses (pure / reads / assigns) are
			// discharged on go/ssa and refer to its callees' clauses: those callees that themselves carry effects clauses
			// belong to the closure (their obligations must be generated), others are reached through other roots
			out := map[string]bool{}
			e.calleesOf(fi, map[string]bool{}, out)
			for c := range out {
				if cc, has := e.cs.Funcs[c]; has && !set[c] && cc.Trusted != "" && (cc.Pure || len(cc.Reads) > 0) {
					set[c] = true
					work = append(work, c)
				}
			}
			continue
		}
		out := map[string]bool{}
		e.calleesOf(fi, map[string]bool{}, out)
		for c := range out {
			if !set[c] {
				if _, has := e.cs.Funcs[c]; has {
					set[c] = true
					work = append(work, c)
				}
			}
		}
	}
	var ks []string
	for k := range set {
		ks = append(ks, k)
	}
	sort.Strings(ks)
	return ks
}

type runStats struct {
	results   []*FuncResult
	obls      []*Obligation
	lemmaErrs []string
}

func (e *Engine) verifyMany(keys []string, withLemmas bool, timeoutS int, thorough bool) *runStats {
	rs := &runStats{}
	for _, k := range keys {
		if msg, bad := e.contractErrs[k]; bad {
			rs.results = append(rs.results, &FuncResult{Key: k, Err: msg})
			continue
		}
		fi, ok := e.funcs[k]
		if !ok {
			rs.results = append(rs.results, &FuncResult{Key: k, Err: "no such function in the working tree"})
			continue
		}
		con := e.cs.Funcs[k]
		if con == nil {
			rs.results = append(rs.results, &FuncResult{Key: k, Err: "no contract"})
			continue
		}
		if con.Inline {
			continue
		}
		r := e.verifyFunc(fi, con)
		rs.results = append(rs.results, r)
		rs.obls = append(rs.obls, r.Obls...)
	}
	if withLemmas {
		for _, l := range e.cs.Lemmas {
			vis := len(l.Tags) == 0
			for _, t := range l.Tags {
				if t == e.prop || e.prop == "" {
					vis = true
				}
			}
			if !vis {
				continue
			}
			if l.Induct != "" {
				os2, err := e.inductionObligations(l)
				if err != nil {
					rs.lemmaErrs = append(rs.lemmaErrs, err.Error())
					continue
				}
				rs.obls = append(rs.obls, os2...)
				continue
			}
			o, err := e.lemmaObligation(l)
			if err != nil {
				rs.lemmaErrs = append(rs.lemmaErrs, err.Error())
				continue
			}
			rs.obls = append(rs.obls, o)
		}
	}
	dir := scratchDir()
	e.dischargeAll(rs.obls, dir, timeoutS, thorough, 10)
	// A timeout is not a refutation.  On a loaded machine an obligation that normally takes a few seconds can exceed
	// the limit while ten solvers run side by side; the few undecided ones (no model, no `sat`) are tried once more,
	// two at a time and with three times the limit, before they are reported.  Real violations cost at most that extra time.
	var again []*Obligation
	for _, o := range rs.obls {
		if !o.ExpectSat && (o.Status == "timeout" || o.Status == "unknown") {
			again = append(again, o)
		}
	}
	if n := len(again); n > 0 && n <= 6 {
		for _, o := range again {
			o.Retried = true
		}
		dir2 := filepath.Join(dir, "retry")
		os.MkdirAll(dir2, 0o755)
		e.dischargeAll(again, dir2, 3*timeoutS, thorough, 2)
	}
	// keep SMT files of failures only
	keep := filepath.Join(verifRoot, "replays", "smt")
	for _, o := range rs.obls {
		if keepAllDir != "" && o.SMTFile != "" {
			os.MkdirAll(keepAllDir, 0o755)
			if data, err := os.ReadFile(o.SMTFile); err == nil {
				os.WriteFile(filepath.Join(keepAllDir, sanitize(o.Name)+".smt2"), data, 0o644)
			}
		}
		if !oblOK(o) && o.SMTFile != "" {
			os.MkdirAll(keep, 0o755)
			dst := filepath.Join(keep, sanitize(o.Name)+".smt2")
			if data, err := os.ReadFile(o.SMTFile); err == nil {
				os.WriteFile(dst, data, 0o644)
				o.SMTFile = dst
			}
		}
	}
	os.RemoveAll(dir)
	return rs
}

func sanitize(s string) string {
	var sb strings.Builder
	for _, r := range s {
		if r >= 'a' && r <= 'z' || r >= 'A' && r <= 'Z' || r >= '0' && r <= '9' || r == '.' || r == '-' || r == '_' {
			sb.WriteRune(r)
		} else {
			sb.WriteRune('_')
		}
	}
	out := sb.String()
	if len(out) > 150 {
		out = out[:150]
	}
	return out
}

// oblOK: an ordinary obligation is discharged by unsat; a vacuity guard by anything but unsat.
func oblOK(o *Obligation) bool {
	if o.ExpectSat {
		return o.Status != "unsat" && o.Status != "error"
	}
	return o.Status == "unsat"
}

var keepAllDir string

func cmdFunc(args []string) int {
	fs := flag.NewFlagSet("func", flag.ExitOnError)
	prop := fs.String("p", "*", "property filter")
	verbose := fs.Bool("v", false, "print every obligation")
	timeout := fs.Int("t", 10, "solver timeout (s)")
	keep := fs.Bool("keep", false, "keep SMT files")
	fs.Parse(reorder(args))
	e := load()
	e.prop = *prop
	if *keep {
		keepAllDir = "/tmp/govc_keep" // debugging aid only; nothing registered depends on it
	}
	keys := fs.Args()
	rs := e.verifyMany(keys, false, *timeout, false)
	return report(rs, *verbose)
}

// reorder moves flags before positional args so that `func a b -v` works.
func reorder(args []string) []string {
	var flags, pos []string
	for i := 0; i < len(args); i++ {
		a := args[i]
		if strings.HasPrefix(a, "-") {
			flags = append(flags, a)
			if (a == "-p" || a == "-t" || a == "-tier") && i+1 < len(args) {
				flags = append(flags, args[i+1])
				i++
			}
		} else {
			pos = append(pos, a)
		}
	}
	return append(flags, pos...)
}

func report(rs *runStats, verbose bool) int {
	bad := 0
	for _, r := range rs.results {
		if r.Err != "" {
			fmt.Printf("ENGINE-ERROR %s: %s\n", r.Key, r.Err)
			bad++
		}
	}
	for _, le := range rs.lemmaErrs {
		fmt.Printf("ENGINE-ERROR %s\n", le)
		bad++
	}
	groupOK := map[string]bool{}
	for _, o := range rs.obls {
		if o.Group != "" && o.ExpectSat && o.Status != "unsat" && o.Status != "error" {
			groupOK[o.Group] = true
		}
	}
	tot, ok := 0, 0
	for _, o := range rs.obls {
		good := oblOK(o)
		if o.Group != "" && groupOK[o.Group] {
			good = true
		}
		tot++
		if good {
			ok++
		} else {
			bad++
		}
		if verbose || !good {
			mark := "ok  "
			if !good {
				mark = "FAIL"
			}
			fmt.Printf("%s %-8s %-7s %6.2fs %-9s %s\n", mark, o.Kind, o.Status, o.TimeS, o.Solver, o.Name)
			if !good && o.Model != "" {
				fmt.Println(indent(trimModel(o.Model, 30), "      "))
				fmt.Println("      smt:", o.SMTFile)
			}
		}
	}
	fmt.Printf("obligations: %d, discharged: %d, failed/undecided: %d\n", tot, ok, tot-ok)
	if bad > 0 {
		return 1
	}
	return 0
}

func trimModel(s string, lines int) string {
	ls := strings.Split(s, "\n")
	if len(ls) > lines {
		ls = append(ls[:lines], "...")
	}
	return strings.Join(ls, "\n")
}

func indent(s, pre string) string {
	return pre + strings.ReplaceAll(s, "\n", "\n"+pre)
}

func cmdLemmas(args []string) int {
	fs := flag.NewFlagSet("lemmas", flag.ExitOnError)
	prop := fs.String("p", "", "property filter")
	verbose := fs.Bool("v", false, "print every obligation")
	timeout := fs.Int("t", 10, "solver timeout (s)")
	fs.Parse(args)
	e := load()
	e.prop = *prop
	rs := e.verifyMany(nil, true, *timeout, false)
	return report(rs, *verbose)
}

func cmdList(args []string) int {
	e := load()
	var ks []string
	for k := range e.cs.Funcs {
		ks = append(ks, k)
	}
	sort.Strings(ks)
	for _, k := range ks {
		c := e.cs.Funcs[k]
		kind := "contract"
		switch {
		case c.External:
			kind = "extern"
		case c.Inline:
			kind = "inline"
		case c.Trusted != "":
			kind = "trusted"
		}
		fmt.Printf("%-9s %-55s props=%v requires=%d ensures=%d loops=%d\n", kind, k, c.Props, len(c.Requires), len(c.Ensures), len(c.Loops))
	}
	fmt.Printf("lemmas: %d\n", len(e.cs.Lemmas))
	return 0
}

// ---- check: one property ---------------------------------------------------------------------------------

type Evidence struct {
	PropertyID  string                 `json:"property_id"`
	Tier        string                 `json:"tier"`
	Seed        int                    `json:"seed"`
	Level       string                 `json:"level"`
	Coverage    map[string]interface{} `json:"coverage"`
	Assumptions []string               `json:"assumptions"`
	WallS       float64                `json:"wall_s"`
	Violations  int                    `json:"violations"`
}

func cmdCheck(args []string) int {
	fs := flag.NewFlagSet("check", flag.ExitOnError)
	prop := fs.String("p", "", "property id")
	tier := fs.String("tier", envOr("VERIF_TIER", "quick"), "quick|thorough")
	fs.Parse(args)
	if *prop == "" {
		usage()
	}
	t0 := time.Now()
	seed, _ := strconv.Atoi(envOr("VERIF_SEED", "0"))
	e := load()
	e.prop = *prop
	e.tier = *tier
	return runPropertyCheck(e, *prop, *tier, seed, t0)
}

func writeJSON(path string, v interface{}) error {
	data, err := json.MarshalIndent(v, "", " ")
	if err != nil {
		return err
	}
	os.MkdirAll(filepath.Dir(path), 0o755)
	return os.WriteFile(path, append(data, '\n'), 0o644)
}

func cmdEffects(args []string) int {
	e := load()
	ef := e.BuildEffects()
	var ks []string
	for k := range ef.fns {
		ks = append(ks, k)
	}
	sort.Strings(ks)
	for _, k := range ks {
		if len(args) > 0 && !strings.Contains(k, args[0]) {
			continue
		}
		s := ef.sum[ef.fns[k]]
		fmt.Printf("%s\n   writesGlobals=%v\n   writesParams=%v\n   unknown=%v\n   readsGlobals=%v\n   impure=%v\n   result: fresh=%v params=%v globals=%v unknown=%v\n", k, s.writesGlobals, s.writesParams, s.writesUnknown, s.readsGlobals, s.impure, s.resultRoots.fresh, s.resultRoots.params, s.resultRoots.globals, s.resultRoots.unknown)
	}
	fmt.Println("mutable globals:", ef.mutableGlobals)
	return 0
}
