package main

// `govc names [-w]`: (re)generate the `//@   names ...` clause of every contract on a function of /repo: the variables
// the function declares (receiver + parameters | named results | locals in order of declaration) under the names
// they have NOW.  The clause lets a later run resolve a contract identifier whose variable has been renamed in the
// source (see namesUsable): a renaming is not a reason to raise an alarm.

import (
	"fmt"
	"go/types"
	"os"
	"sort"
	"strconv"
	"strings"
)

func namesLine(fi *FuncInfo) string {
	var g [3][]string
	for k, v := range fi.DeclOrder {
		ent := v.Name() + ":" + typeKey(v.Type())
		if t := fi.DeclTag[v]; t != "" {
			ent += "@" + t
		}
		switch {
		case k < fi.NSigIn:
			g[0] = append(g[0], ent)
		case k < fi.NSigIn+fi.NSigOut:
			g[1] = append(g[1], ent)
		default:
			g[2] = append(g[2], ent)
		}
	}
	return "//@   names " + strings.Join(g[0], " ") + " | " + strings.Join(g[1], " ") + " | " + strings.Join(g[2], " ") + " | " + strings.Join(fi.LoopFP, " ")
}

// typeKey: a type as one token (package-qualified by name, spaces removed)
func typeKey(t types.Type) string {
	s := types.TypeString(t, func(p *types.Package) string { return p.Name() })
	return strings.NewReplacer(" ", "", "|", "/", "@", "_").Replace(s)
}

func cmdNames(args []string) int {
	write := len(args) > 0 && args[0] == "-w"
	e := load()
	type ins struct {
		line int
		text string
	}
	byFile := map[string][]ins{}
	for k, con := range e.cs.Funcs {
		fi := e.funcs[k]
		if fi == nil || con.External || fi.Decl.Body == nil || len(fi.DeclOrder) == 0 {
			continue
		}
		i := strings.LastIndex(con.Pos, ":")
		ln, err := strconv.Atoi(con.Pos[i+1:])
		if err != nil {
			continue
		}
		byFile[con.File] = append(byFile[con.File], ins{ln, namesLine(fi)})
	}
	for file, list := range byFile {
		data, err := os.ReadFile(file)
		if err != nil {
			fmt.Println(err)
			return 2
		}
		lines := strings.Split(string(data), "\n")
		sort.Slice(list, func(a, b int) bool { return list[a].line > list[b].line })
		for _, in := range list {
			at := in.line // 1-based line of `//@ func`; insert after it
			if at < 1 || at > len(lines) || !strings.Contains(lines[at-1], "//@ func") {
				fmt.Printf("names: %s:%d is not a func line, skipped\n", file, at)
				continue
			}
			// drop an existing names clause of this block
			j := at
			for j < len(lines) && strings.HasPrefix(strings.TrimSpace(lines[j]), "//@") && !strings.HasPrefix(strings.TrimSpace(lines[j]), "//@ func") {
				if strings.HasPrefix(strings.TrimSpace(lines[j]), "//@   names ") {
					lines = append(lines[:j], lines[j+1:]...)
					continue
				}
				j++
			}
			rest := append([]string{in.text}, lines[at:]...)
			lines = append(lines[:at:at], rest...)
		}
		if write {
			if err := os.WriteFile(file, []byte(strings.Join(lines, "\n")), 0o644); err != nil {
				fmt.Println(err)
				return 2
			}
			fmt.Printf("names: %s: %d clauses\n", file, len(list))
		} else {
			fmt.Printf("names: %s: %d clauses (dry run, -w to write)\n", file, len(list))
		}
	}
	return 0
}
