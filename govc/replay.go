package main

// Replay of solver counterexamples against the real code.
//
// For an obligation of the function under verification that the solver answers `sat`, the model assigns values
// to the function's entry state.  The replayer (1) asks the solver for the values of the parameters (scalars,
// fixed-size arrays, structs of those, pointers to those, slices of integers), (2) generates an in-package Go
// test that builds these arguments, calls the REAL function (injected with `go test -overlay`, nothing is
// written to /repo) and prints results, final contents of pointer/slice arguments and any panic, and (3) decides
// whether the real run violates the clause: for safety obligations a run-time error must occur; for ensures /
// exit-free postconditions the clause is evaluated by the solver on the concrete (input, observed output) pair
// with the specification prelude; for refusal clauses the panic behaviour must differ from the stated one.
// A model that does not reproduce is reported as such (no-failing-input-found).

import (
	"encoding/json"
	"fmt"
	"go/types"
	"os"
	"os/exec"
	"path/filepath"
	"regexp"
	"sort"
	"strings"
	"time"
)

type replayParam struct {
	Name string
	Typ  types.Type
	V    Val
	Recv bool
}

type replayInfo struct {
	fi      *FuncInfo
	ctx     *FCtx
	params  []replayParam
	entry   *State
	post    *State // ensures/refusal obligations at a return: the state at that return
	results []Val
	goalAt  string
}

type rleaf struct {
	t    *Term
	bool bool
}

type rslice struct {
	lv     LV
	st     *State
	lenIdx int // index of the Len leaf in the phase-1 leaf list
	nilIdx int
}

type flattener struct {
	c           *FCtx
	leaves      []rleaf
	slices      []*rslice
	phase2      bool
	lensByOrder []int // concrete slice lengths in visiting order (phase 2)
	bad         string
}

func (f *flattener) leaf(t *Term) {
	f.leaves = append(f.leaves, rleaf{t, t.S == SBool})
}

// flat appends the leaves of v in depth-first declaration order (the order verifFlat uses on the Go side).
func (f *flattener) flat(v Val, st *State) {
	if f.bad != "" {
		return
	}
	defer func() {
		if r := recover(); r != nil {
			if f.bad == "" {
				f.bad = fmt.Sprint(r)
			}
		}
	}()
	switch x := v.(type) {
	case SV:
		f.leaf(x.T)
	case AV:
		n := int(x.Typ.Underlying().(*types.Array).Len())
		for i := 0; i < n; i++ {
			f.flat(f.c.project(v, []Sel{{IsIdx: true, Idx: Num(int64(i))}}), st)
		}
	case TV:
		for i := range x.Fs {
			f.flat(x.Fs[i], st)
		}
	case PV:
		cv, ok := st.cells[x.Cell]
		if !ok {
			f.bad = "pointer to unknown cell"
			return
		}
		f.flat(f.c.project(cv, x.Path), st)
	case LV:
		if x.Str {
			f.bad = "string parameter"
			return
		}
		rs := &rslice{lv: x, st: st}
		if !f.phase2 {
			rs.nilIdx = len(f.leaves)
			f.leaf(x.IsNil)
			rs.lenIdx = len(f.leaves)
			f.leaf(x.Len)
			f.slices = append(f.slices, rs)
			return
		}
		// phase 2: length known (slices are visited in the same order as in phase 1)
		k := len(f.slices)
		f.slices = append(f.slices, rs)
		if k >= len(f.lensByOrder) {
			f.bad = "slice count changed between phases"
			return
		}
		n := f.lensByOrder[k]
		f.leaf(x.Len)
		m := f.c.memTerm(st, x)
		for i := 0; i < n; i++ {
			f.flat(f.c.termToVal(Select(m, Add(x.Off, Num(int64(i)))), x.Elem), st)
		}
	default:
		f.bad = fmt.Sprintf("unsupported value kind %T", v)
	}
}

// (kept separate so that phase 2 can look lengths up by visiting order)
func (f *flattener) withLens(l []int) *flattener {
	f.phase2 = true
	f.lensByOrder = l
	return f
}

var _ = sort.Ints

// getValues re-runs z3 on the obligation's SMT file with (get-value ...) for the given terms.
func getValues(smtFile string, terms []*Term, extra []string, timeoutS int) ([]string, error) {
	data, err := os.ReadFile(smtFile)
	if err != nil {
		return nil, err
	}
	text := string(data)
	if i := strings.LastIndex(text, "(check-sat)"); i >= 0 {
		text = text[:i]
	}
	var sb strings.Builder
	sb.WriteString(text)
	for _, e := range extra {
		sb.WriteString(e)
		sb.WriteString("\n")
	}
	sb.WriteString("(check-sat)\n")
	const batch = 400
	for i := 0; i < len(terms); i += batch {
		j := i + batch
		if j > len(terms) {
			j = len(terms)
		}
		sb.WriteString("(get-value (")
		for _, t := range terms[i:j] {
			sb.WriteString(t.String())
			sb.WriteString(" ")
		}
		sb.WriteString("))\n")
	}
	tmp := filepath.Join(scratchDir(), "gv.smt2")
	defer os.RemoveAll(filepath.Dir(tmp))
	if err := os.WriteFile(tmp, []byte(sb.String()), 0o644); err != nil {
		return nil, err
	}
	cmd := exec.Command("z3-new", fmt.Sprintf("-T:%d", timeoutS), tmp)
	out, _ := cmd.CombinedOutput()
	s := string(out)
	first := strings.TrimSpace(strings.SplitN(s, "\n", 2)[0])
	if first != "sat" {
		return nil, fmt.Errorf("solver answered %q when asked for values", first)
	}
	rest := s[strings.Index(s, "\n")+1:]
	forms, err := parseSexps(rest)
	if err != nil {
		return nil, err
	}
	var vals []string
	for _, f := range forms {
		if !f.isList {
			continue
		}
		for _, pr := range f.list {
			if !pr.isList || len(pr.list) != 2 {
				return nil, fmt.Errorf("unexpected get-value answer %s", pr.String())
			}
			vals = append(vals, smtScalar(pr.list[1]))
		}
	}
	if len(vals) != len(terms) {
		return nil, fmt.Errorf("asked for %d values, got %d", len(terms), len(vals))
	}
	return vals, nil
}

func smtScalar(s *sexp) string {
	if !s.isList {
		return s.atom
	}
	if len(s.list) == 2 && s.list[0].atom == "-" {
		return "-" + smtScalar(s.list[1])
	}
	return s.String()
}

// goLit builds a Go expression of type t consuming concrete leaf values in flattening order.
type litBuilder struct {
	vals  []string
	pos   int
	pkg   *types.Package
	bad   string
	nils  []bool // per slice, in visiting order
	nsl   int
	decls []string
	nvar  int
}

func (b *litBuilder) next() string {
	if b.pos >= len(b.vals) {
		b.bad = "ran out of model values"
		return "0"
	}
	v := b.vals[b.pos]
	b.pos++
	return v
}

func (b *litBuilder) typeStr(t types.Type) string {
	return types.TypeString(t, func(p *types.Package) string {
		if p == b.pkg {
			return ""
		}
		b.bad = "type from another package: " + p.Path()
		return p.Name()
	})
}

func (b *litBuilder) lit(t types.Type) string {
	switch u := t.Underlying().(type) {
	case *types.Basic:
		v := b.next()
		switch {
		case u.Info()&types.IsBoolean != 0:
			if v == "true" || v == "false" {
				return b.typeStr(t) + "(" + v + ")"
			}
			b.bad = "non-boolean model value " + v
			return "false"
		case u.Info()&types.IsInteger != 0:
			if !regexp.MustCompile(`^-?[0-9]+$`).MatchString(v) {
				b.bad = "non-integer model value " + v
				return "0"
			}
			if k, ok := intKindOf(t); ok {
				if !k.inRange(v) {
					b.bad = fmt.Sprintf("model value %s outside the range of %s", v, b.typeStr(t))
					return "0"
				}
			}
			return b.typeStr(t) + "(" + v + ")"
		}
		b.bad = "unsupported basic type " + u.String()
		return "0"
	case *types.Array:
		var parts []string
		for i := int64(0); i < u.Len(); i++ {
			parts = append(parts, b.lit(u.Elem()))
		}
		return b.typeStr(t) + "{" + strings.Join(parts, ", ") + "}"
	case *types.Struct:
		var parts []string
		for i := 0; i < u.NumFields(); i++ {
			parts = append(parts, u.Field(i).Name()+": "+b.lit(u.Field(i).Type()))
		}
		return b.typeStr(t) + "{" + strings.Join(parts, ", ") + "}"
	case *types.Pointer:
		b.nvar++
		name := fmt.Sprintf("verifP%d", b.nvar)
		inner := b.lit(u.Elem())
		b.decls = append(b.decls, fmt.Sprintf("%s := %s", name, inner))
		return "&" + name
	case *types.Slice:
		isNil := false
		if b.nsl < len(b.nils) {
			isNil = b.nils[b.nsl]
		}
		b.nsl++
		nStr := b.next()
		n := 0
		fmt.Sscanf(nStr, "%d", &n)
		if isNil && n == 0 {
			return b.typeStr(t) + "(nil)"
		}
		var parts []string
		for i := 0; i < n; i++ {
			parts = append(parts, b.lit(u.Elem()))
		}
		return b.typeStr(t) + "{" + strings.Join(parts, ", ") + "}"
	}
	b.bad = "unsupported parameter type " + t.String()
	return "nil"
}

func (k intKind) inRange(v string) bool {
	var x int64
	if _, err := fmt.Sscanf(v, "%d", &x); err != nil {
		return false // beyond int64
	}
	if k.signed {
		if k.bits >= 64 {
			return true
		}
		return x >= -(int64(1)<<(uint(k.bits)-1)) && x < int64(1)<<(uint(k.bits)-1)
	}
	if x < 0 {
		return false
	}
	if k.bits >= 63 {
		return true
	}
	return x < int64(1)<<uint(k.bits)
}

const replayHelpers = `
func verifFlat(v reflect.Value, out *[]int64) {
	switch v.Kind() {
	case reflect.Bool:
		if v.Bool() {
			*out = append(*out, 1)
		} else {
			*out = append(*out, 0)
		}
	case reflect.Int, reflect.Int8, reflect.Int16, reflect.Int32, reflect.Int64:
		*out = append(*out, v.Int())
	case reflect.Uint, reflect.Uint8, reflect.Uint16, reflect.Uint32, reflect.Uint64, reflect.Uintptr:
		*out = append(*out, int64(v.Uint()))
	case reflect.Array:
		for i := 0; i < v.Len(); i++ {
			verifFlat(v.Index(i), out)
		}
	case reflect.Slice:
		*out = append(*out, int64(v.Len()))
		for i := 0; i < v.Len(); i++ {
			verifFlat(v.Index(i), out)
		}
	case reflect.Struct:
		for i := 0; i < v.NumField(); i++ {
			verifFlat(v.Field(i), out)
		}
	case reflect.Ptr:
		if !v.IsNil() {
			verifFlat(v.Elem(), out)
		}
	case reflect.Interface:
		if v.IsNil() {
			*out = append(*out, 0)
		} else {
			*out = append(*out, 1)
		}
	default:
		panic("verifFlat: unsupported kind " + v.Kind().String())
	}
}
`

type replayRun struct {
	Panic   string  `json:"panic"`
	Rte     bool    `json:"runtime_error"`
	Results []int64 `json:"results"`
	Post    []int64 `json:"post"`
}

var replayLine = regexp.MustCompile(`(?m)^VERIFREPLAY (.*)$`)

// tryReplay: see the file comment.  Returns nil when the obligation is not replayable.
func (e *Engine) tryReplay(prop, name string, obls []*Obligation) map[string]interface{} {
	var o *Obligation
	for _, x := range obls {
		if x.Name == name {
			o = x
		}
	}
	if o == nil || o.Status != "sat" || o.rp == nil || o.SMTFile == "" {
		return nil
	}
	res := map[string]interface{}{"reproduced": false}
	note := func(f string, a ...interface{}) map[string]interface{} {
		res["note"] = fmt.Sprintf(f, a...)
		return res
	}
	rp := o.rp
	c := rp.ctx
	// phase 1: scalars, slice headers
	f1 := &flattener{c: c}
	for _, p := range rp.params {
		f1.flat(p.V, rp.entry)
	}
	if f1.bad != "" {
		return note("parameters not replayable: %s", f1.bad)
	}
	terms := func(ls []rleaf) []*Term {
		var ts []*Term
		for _, l := range ls {
			ts = append(ts, l.t)
		}
		return ts
	}
	v1, err := getValues(o.SMTFile, terms(f1.leaves), nil, 20)
	if err != nil {
		return note("model values: %v", err)
	}
	var lens []int
	var nils []bool
	var pins []string
	for _, rs := range f1.slices {
		n := 0
		fmt.Sscanf(v1[rs.lenIdx], "%d", &n)
		if n > 4096 {
			return note("model slice length %d too large to replay", n)
		}
		lens = append(lens, n)
		nils = append(nils, v1[rs.nilIdx] == "true")
		pins = append(pins, fmt.Sprintf("(assert (= %s %d))", f1.leaves[rs.lenIdx].t.String(), n))
	}
	// phase 2: everything, with concrete slice lengths pinned
	f2 := (&flattener{c: c}).withLens(lens)
	for _, p := range rp.params {
		f2.flat(p.V, rp.entry)
	}
	if f2.bad != "" {
		return note("parameters not replayable: %s", f2.bad)
	}
	v2, err := getValues(o.SMTFile, terms(f2.leaves), pins, 20)
	if err != nil {
		return note("model values: %v", err)
	}
	// Go literals
	lb := &litBuilder{vals: v2, pkg: rp.fi.Pkg.Types, nils: nils}
	var argNames, argDecls []string
	recv := ""
	for i, p := range rp.params {
		nm := fmt.Sprintf("verifA%d", i)
		lit := lb.lit(p.Typ)
		argDecls = append(argDecls, lb.decls...)
		lb.decls = nil
		argDecls = append(argDecls, fmt.Sprintf("%s := %s", nm, lit))
		if p.Recv {
			recv = nm
		} else {
			argNames = append(argNames, nm)
		}
	}
	if lb.bad != "" {
		return note("arguments not constructible: %s", lb.bad)
	}
	sig := rp.fi.Obj.Type().(*types.Signature)
	callee := rp.fi.Obj.Name()
	if recv != "" {
		callee = recv + "." + callee
	}
	call := fmt.Sprintf("%s(%s)", callee, strings.Join(argNames, ", "))
	if sig.Variadic() {
		return note("variadic function")
	}
	var rn []string
	for i := 0; i < sig.Results().Len(); i++ {
		rn = append(rn, fmt.Sprintf("verifR%d", i))
	}
	var body strings.Builder
	fmt.Fprintf(&body, "package %s\n\nimport (\n\t\"encoding/json\"\n\t\"fmt\"\n\t\"reflect\"\n\t\"runtime\"\n\t\"testing\"\n)\n%s\n", rp.fi.Pkg.Types.Name(), replayHelpers)
	fmt.Fprintf(&body, "// replay of obligation %s\nfunc TestVerifReplay(t *testing.T) {\n", o.Name)
	for _, d := range argDecls {
		fmt.Fprintf(&body, "\t%s\n", d)
	}
	fmt.Fprintf(&body, "\tvar results, post []int64\n\tpmsg, rte := \"\", false\n\tfunc() {\n\t\tdefer func() {\n\t\t\tif r := recover(); r != nil {\n\t\t\t\tpmsg = fmt.Sprint(r)\n\t\t\t\t_, rte = r.(runtime.Error)\n\t\t\t}\n\t\t}()\n")
	if len(rn) > 0 {
		fmt.Fprintf(&body, "\t\t%s := %s\n", strings.Join(rn, ", "), call)
		for _, r := range rn {
			fmt.Fprintf(&body, "\t\tverifFlat(reflect.ValueOf(&%s).Elem(), &results)\n", r)
		}
	} else {
		fmt.Fprintf(&body, "\t\t%s\n", call)
	}
	fmt.Fprintf(&body, "\t}()\n")
	for i, p := range rp.params {
		switch p.Typ.Underlying().(type) {
		case *types.Pointer, *types.Slice:
			fmt.Fprintf(&body, "\tverifFlat(reflect.ValueOf(verifA%d), &post)\n", i)
		}
	}
	fmt.Fprintf(&body, "\tif results == nil {\n\t\tresults = []int64{}\n\t}\n\tif post == nil {\n\t\tpost = []int64{}\n\t}\n")
	fmt.Fprintf(&body, "\tj, _ := json.Marshal(map[string]interface{}{\"panic\": pmsg, \"runtime_error\": rte, \"results\": results, \"post\": post})\n\tfmt.Printf(\"VERIFREPLAY %%s\\n\", j)\n\t_ = t\n}\n")
	src := body.String()
	res["test_source"] = src
	res["package_dir"] = e.pkgDir(rp.fi)
	res["inputs"] = argDecls
	run, out, err := e.runReplayTest(e.pkgDir(rp.fi), src)
	if run == nil {
		return note("replay run failed: %v: %s", err, tailStr(out, 600))
	}
	res["observed"] = run
	// verdict
	switch o.Kind {
	case "safety":
		if run.Rte {
			res["reproduced"] = true
			res["note"] = "the real function raised a run-time error on the model's input: " + run.Panic
		} else {
			res["note"] = "the real function did not fault on the model's input (model not reproduced)"
		}
		return res
	case "refusal":
		switch {
		case strings.Contains(o.Name, "refused-when-stated"):
			if run.Panic == "" {
				res["reproduced"] = true
				res["note"] = "the real function returned normally on an input for which the contract states a refusal"
			} else {
				res["note"] = "the real function refused: " + run.Panic
			}
		case strings.Contains(o.Name, "only-when"), strings.Contains(o.Name, "undeclared-panic"):
			if run.Panic != "" && !run.Rte {
				res["reproduced"] = true
				res["note"] = "the real function refused (" + run.Panic + ") on an input outside the stated refusal condition"
			} else {
				res["note"] = "the real function did not refuse on the model's input"
			}
		}
		return res
	case "ensures":
		if run.Panic != "" {
			return note("the real function panicked (%s); the postcondition is not evaluated", run.Panic)
		}
		if rp.post == nil {
			return note("no post-state recorded")
		}
	default:
		return note("obligation kind %s is internal to the function body; only the inputs are replayed", o.Kind)
	}
	// evaluate the clause on the concrete pair: pins for inputs, for results and for the final contents
	// results: slices among results are flattened with the observed length
	var outLeaves []rleaf
	obs := append([]int64{}, run.Results...)
	k := 0
	var pinOut []*Term
	var walk func(v Val, st *State) bool
	walk = func(v Val, st *State) bool {
		switch x := v.(type) {
		case SV:
			if k >= len(obs) {
				return false
			}
			outLeaves = append(outLeaves, rleaf{x.T, x.T.S == SBool})
			if x.T.S == SBool {
				if obs[k] != 0 {
					pinOut = append(pinOut, x.T)
				} else {
					pinOut = append(pinOut, Not(x.T))
				}
			} else {
				pinOut = append(pinOut, Eq(x.T, Num(obs[k])))
			}
			k++
			return true
		case AV:
			n := int(x.Typ.Underlying().(*types.Array).Len())
			for i := 0; i < n; i++ {
				if !walk(c.project(v, []Sel{{IsIdx: true, Idx: Num(int64(i))}}), st) {
					return false
				}
			}
			return true
		case TV:
			for i := range x.Fs {
				if !walk(x.Fs[i], st) {
					return false
				}
			}
			return true
		case PV:
			cv, ok := st.cells[x.Cell]
			if !ok {
				return false
			}
			return walk(c.project(cv, x.Path), st)
		case LV:
			if x.Str || k >= len(obs) {
				return false
			}
			n := int(obs[k])
			pinOut = append(pinOut, Eq(x.Len, Num(int64(n))))
			k++
			m := c.memTerm(st, x)
			for i := 0; i < n; i++ {
				if !walk(c.termToVal(Select(m, Add(x.Off, Num(int64(i)))), x.Elem), st) {
					return false
				}
			}
			return true
		}
		return false
	}
	okAll := true
	func() {
		defer func() {
			if r := recover(); r != nil {
				okAll = false
			}
		}()
		for _, r := range rp.results {
			if !walk(r, rp.post) {
				okAll = false
			}
		}
		obs = append(obs[:k:k], run.Post...)
		for _, p := range rp.params {
			switch p.Typ.Underlying().(type) {
			case *types.Pointer, *types.Slice:
				if !walk(p.V, rp.post) {
					okAll = false
				}
			}
		}
	}()
	_ = outLeaves
	if !okAll || k != len(obs) {
		return note("observed outputs do not line up with the symbolic post-state (%d of %d values)", k, len(obs))
	}
	var pinIn []*Term
	for i, l := range f2.leaves {
		if l.bool {
			if v2[i] == "true" {
				pinIn = append(pinIn, l.t)
			} else {
				pinIn = append(pinIn, Not(l.t))
			}
		} else {
			var n int64
			if _, err := fmt.Sscanf(v2[i], "%d", &n); err != nil {
				return note("model value %s is not a machine integer", v2[i])
			}
			pinIn = append(pinIn, Eq(l.t, Num(n)))
		}
	}
	po := &Obligation{Name: o.Name + "/replay", Func: o.Func, Kind: "replay", Goal: o.Goal, Hyps: append(pinIn, pinOut...)}
	text, err := e.renderVC(po)
	if err != nil {
		return note("replay VC: %v", err)
	}
	q := strings.Replace(text, "(get-model)", "", 1)
	dir := scratchDir()
	defer os.RemoveAll(dir)
	qf := filepath.Join(dir, "clause.smt2")
	os.WriteFile(qf, []byte(q), 0o644)
	outb, _ := exec.Command("z3-new", "-T:20", qf).CombinedOutput()
	ans := strings.TrimSpace(strings.SplitN(string(outb), "\n", 2)[0])
	res["clause_on_observed_pair"] = ans
	if ans == "sat" {
		res["reproduced"] = true
		res["note"] = "the clause is false on the model's input and the outputs the real function produced for it"
	} else {
		res["note"] = "the clause holds (or is undecided) on the outputs the real function produced for the model's input: " + ans
	}
	return res
}

func smtNum(v string) string {
	if strings.HasPrefix(v, "-") {
		return "(- " + v[1:] + ")"
	}
	return v
}

func NumB64(x int64) *Term { return Num(x) }

func (e *Engine) pkgDir(fi *FuncInfo) string {
	p := e.fset.Position(fi.Decl.Pos()).Filename
	rel, err := filepath.Rel(e.repo, filepath.Dir(p))
	if err != nil {
		return "."
	}
	return rel
}

func (e *Engine) runReplayTest(pkgDir, src string) (*replayRun, string, error) {
	t0 := time.Now()
	out, err := e.runOverlayTest(pkgDir, map[string]string{filepath.Join(pkgDir, "zz_verif_replay_test.go"): src}, "TestVerifReplay$", 60)
	_ = t0
	m := replayLine.FindStringSubmatch(out)
	if m == nil {
		return nil, out, err
	}
	var r replayRun
	if jerr := json.Unmarshal([]byte(m[1]), &r); jerr != nil {
		return nil, out, jerr
	}
	return &r, out, nil
}
