package main

// Hard-wired model of golang.org/x/crypto/sha3's ShakeHash (assumption T4): an XOF object is
// (kind, absorbed bytes as a canonical array, absorbed length, read position).  Write appends to the
// absorbed string, Read returns the next bytes of the stream shake(kind, msg, len, pos..).  Nothing else
// is assumed about SHAKE (no injectivity, no distribution).

import (
	"go/ast"
	"go/types"
)

type XV struct {
	Kind           int64
	Arr, Len, RPos *Term
	Typ            types.Type
}

func shakeByte(kind int64, arr, ln, q *Term) *Term {
	return App("shake", SInt, Num(kind), arr, ln, q)
}

func subBytes(mem, off, n *Term) *Term {
	// sub(sub(M,o,n),0,n) = sub(M,o,n): the canonical string of a canonical string of the same length
	if mem.Op == "sub" && len(mem.Args) == 3 && off.IsNum() && off.Num.Sign() == 0 && sameTerm(mem.Args[2], n) {
		return mem
	}
	return App("sub", SArr(SInt), mem, off, n)
}
func catBytes(a, n, b, m *Term) *Term  { return App("cat", SArr(SInt), a, n, b, m) }

// xofCall handles NewShake128/256, ShakeSum128/256 and the Write/Read methods; ok=false if not an XOF call.
func (c *FCtx) xofCall(st *State, key string, call *ast.CallExpr, recvExpr ast.Expr) ([]Val, bool) {
	switch key {
	case "sha3.NewShake128", "sha3.NewShake256":
		k := int64(256)
		if key == "sha3.NewShake128" {
			k = 128
		}
		c.note("assumed model of golang.org/x/crypto/sha3 (T4): deterministic XOF stream, Write appends, Read continues the stream")
		return []Val{XV{Kind: k, Arr: ConstArr(SArr(SInt), Num(0)), Len: Num(0), RPos: Num(0), Typ: c.info.TypeOf(call)}}, true
	case "sha3.ShakeSum128", "sha3.ShakeSum256":
		k := int64(256)
		if key == "sha3.ShakeSum128" {
			k = 128
		}
		c.note("assumed model of golang.org/x/crypto/sha3 (T4): deterministic XOF stream, Write appends, Read continues the stream")
		out := c.eval(st, call.Args[0]).(LV)
		data := c.eval(st, call.Args[1]).(LV)
		msg := subBytes(c.memTerm(st, data), data.Off, data.Len)
		c.fillWindow(st, out, func(q *Term) *Term { return shakeByte(k, msg, data.Len, q) }, "shakesum")
		return nil, true
	case "sha3.ShakeHash.Write", "sha3.ShakeHash.Read":
		id, ok := recvExpr.(*ast.Ident)
		if !ok {
			fail("XOF method call on a receiver that is not a plain variable")
		}
		obj := c.info.ObjectOf(id)
		cell := c.varCell(st, obj)
		xv, ok := st.cells[cell].(XV)
		if !ok {
			fail("XOF method call on a value that is not a modelled XOF object")
		}
		p := c.eval(st, call.Args[0]).(LV)
		errT := types.Universe.Lookup("error").Type()
		if key == "sha3.ShakeHash.Write" {
			c.oblige(st, "safety", "xof-write-after-read "+c.exprStr(call), Eq(xv.RPos, Num(0)), c.eng.pos(call))
			st.assume(Eq(xv.RPos, Num(0)))
			nv := xv
			if xv.Len.IsNum() && xv.Len.Num.Sign() == 0 {
				// first Write into a fresh XOF: cat(0-array, 0, sub(M,o,n), n) is extensionally the canonical string sub(M,o,n)
				nv.Arr = subBytes(c.memTerm(st, p), p.Off, p.Len)
			} else {
				nv.Arr = catBytes(xv.Arr, xv.Len, subBytes(c.memTerm(st, p), p.Off, p.Len), p.Len)
			}
			nv.Len = Add(xv.Len, p.Len)
			st.cells[cell] = nv
			st.written[cell] = true
			return []Val{SV{p.Len, types.Typ[types.Int]}, SV{False(), errT}}, true
		}
		c.fillWindow(st, p, func(q *Term) *Term { return shakeByte(xv.Kind, xv.Arr, xv.Len, Add(xv.RPos, q)) }, "xofread")
		nv := xv
		nv.RPos = Add(xv.RPos, p.Len)
		st.cells[cell] = nv
		st.written[cell] = true
		return []Val{SV{p.Len, types.Typ[types.Int]}, SV{False(), errT}}, true
	}
	return nil, false
}

// fillWindow overwrites dst[0:len) with byteAt(q) and keeps everything else.
func (c *FCtx) fillWindow(st *State, dst LV, byteAt func(q *Term) *Term, name string) {
	p := Place{Cell: dst.Cell, Path: dst.Path}
	cur := c.readPlace(st, p)
	var oldT *Term
	switch x := cur.(type) {
	case MV:
		oldT = x.T
	case AV:
		oldT = x.T
	default:
		fail("hash output into %T", cur)
	}
	nt := Sym(c.freshName(name), oldT.S)
	q := Sym(c.freshName("q"), SInt)
	inWin := And(Le(dst.Off, q), Lt(q, Add(dst.Off, dst.Len)))
	st.assume(Forall([]*Term{q}, Ite(inWin, Eq(Select(nt, q), byteAt(Sub(q, dst.Off))), Eq(Select(nt, q), Select(oldT, q))), Select(nt, q)))
	switch x := cur.(type) {
	case MV:
		st.assume(c.memTypeInv(nt, x.Elem))
		c.writePlace(st, p, MV{nt, x.Elem})
	case AV:
		st.assume(c.arrayTypeInv(nt, x.Typ))
		c.writePlace(st, p, AV{nt, x.Typ})
	}
}
