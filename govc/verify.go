package main

// Per-function verification driver: builds the entry state from the contract, executes the body,
// and turns ensures / frame / refusal clauses into obligations.

import (
	"regexp"
	"fmt"
	"go/ast"
	"go/token"
	"go/types"
	"math/big"
	"sort"
	"strings"
)

type FuncResult struct {
	Key     string
	Obls    []*Obligation
	Notes   []string
	Err     string // engine error (unsupported construct etc.): the function's obligations are undischarged
	Trusted bool
}

func (e *Engine) newCtx(fi *FuncInfo, con *Contract) *FCtx {
	c := &FCtx{eng: e, fi: fi, con: con, info: fi.Pkg.TypesInfo, pkg: fi.Pkg.Types, prop: e.prop,
		params: map[string]types.Object{}, entryVal: map[string]Val{}, notes: map[string]bool{},
		globals: map[types.Object]int{}, oblSeen: map[string]int{}, inputs: map[string]*Term{},
		rangeCtr: map[ast.Node]types.Object{}, pow2Of: map[*Term]*Term{}, maskOf: map[*Term]*Term{}}
	c.curFI, c.curCon = fi, con
	c.curSig = fi.Obj.Type().(*types.Signature)
	c.curFunc = fi.Key
	c.nooverflow = con != nil && con.NoOverflow
	return c
}

// bodyEnv: contract environment for a program point inside the function body (loop invariants).
func (c *FCtx) bodyEnv(st *State, pos token.Pos) *CEnv {
	fi := c.curFI
	scope := fi.Pkg.Types.Scope().Innermost(pos)
	info := fi.Pkg.TypesInfo
	env := &CEnv{c: c, names: map[string]Val{}, st: st, old: c.entry, pkg: fi.Pkg}
	env.lookup = func(name string, s *State, old bool) (Val, bool) {
		if strings.HasPrefix(name, "range_") {
			for n, obj := range c.rangeCtr {
				if fmt.Sprintf("range_%d", loopRecorded(fi, c.eng.cs.Funcs[fi.Key], fi.Loops[n])) == name {
					if id, ok := s.vars[obj]; ok {
						return s.cells[id], true
					}
				}
			}
			// the loop has been rewritten as `for i := 0; i < len(x); i++`: its counter is the variable of the init statement
			for n, ord := range fi.Loops {
				fs, isFor := n.(*ast.ForStmt)
				if !isFor || fmt.Sprintf("range_%d", loopRecorded(fi, c.eng.cs.Funcs[fi.Key], ord)) != name || fs.Init == nil {
					continue
				}
				if as, ok := fs.Init.(*ast.AssignStmt); ok && as.Tok == token.DEFINE && len(as.Lhs) == 1 {
					if id, ok := as.Lhs[0].(*ast.Ident); ok {
						if obj := info.Defs[id]; obj != nil {
							if cid, ok := s.vars[obj]; ok {
								return s.cells[cid], true
							}
						}
					}
				}
			}
			return nil, false
		}
		if scope == nil {
			return nil, false
		}
		_, obj := scope.LookupParent(name, pos)
		if obj == nil {
			// scopes of function bodies are attached to the FuncType
			if fs := info.Scopes[fi.Decl.Type]; fs != nil {
				obj = fs.Lookup(name)
			}
		}
		if _, isVar := obj.(*types.Var); !isVar {
			// renamed since the contract was written: resolve through the position recorded in the `names` clause
			if con := c.eng.cs.Funcs[fi.Key]; alignNames(fi, con) != nil {
				al := alignNames(fi, con)
				var pick *types.Var
				for k, rec := range con.Names {
					if rec != name || al[k] < 0 {
						continue
					}
					v := fi.DeclOrder[al[k]]
					if v.Name() == name {
						continue
					}
					if k >= con.NamesIn+con.NamesOut && !(v.Parent() != nil && v.Parent().Contains(pos) && v.Pos() <= pos) {
						continue
					}
					pick = v // the innermost (last declared) candidate in scope
				}
				if pick != nil {
					obj = pick
				} else {
					// the contract's name was the counter of a loop that is now a range loop without a key: its hidden counter
					for k, rec := range con.Names {
						if rec != name || al[k] >= 0 || k >= len(con.NamesTag) {
							continue
						}
						t := con.NamesTag[k]
						if !(strings.HasSuffix(t, "i") || strings.HasSuffix(t, "k")) {
							continue
						}
						for n, ord := range fi.Loops {
							if ro := loopRecorded(fi, con, ord); fmt.Sprintf("%di", ro) != t && fmt.Sprintf("%dk", ro) != t {
								continue
							}
							if ctr, ok := c.rangeCtr[n]; ok && n.Pos() <= pos && pos <= n.End() {
								if id, ok := s.vars[ctr]; ok {
									return s.cells[id], true
								}
							}
						}
					}
				}
			}
		}
		v, ok := obj.(*types.Var)
		if !ok {
			return nil, false
		}
		if v.Parent() == v.Pkg().Scope() {
			return nil, false // package-level: handled by qualified()
		}
		if id, ok := s.vars[v]; ok {
			return s.cells[id], true
		}
		return nil, false
	}
	return env
}

var calledRe = regexp.MustCompile(`(?:called|ncalls)\(\s*"([^"]+)"\s*,\s*([0-9]+)\s*\)`)

// calledKeys: the call sites ("pkg.F#k") a contract refers to through `called("pkg.F", k)`
func calledKeys(con *Contract) []string {
	seen := map[string]bool{}
	var out []string
	scan := func(cls []*Clause) {
		for _, cl := range cls {
			for _, m := range calledRe.FindAllStringSubmatch(cl.Src, -1) {
				k := m[1] + "#" + m[2]
				if !seen[k] {
					seen[k] = true
					out = append(out, k)
				}
			}
		}
	}
	scan(con.Ensures)
	scan(con.Exits)
	for _, ls := range con.Loops {
		scan(ls.Invs)
		scan(ls.Asserts)
	}
	for _, as := range con.Afters {
		scan(as)
	}
	return out
}

// exitEnv: environment for ensures at a return: parameters denote their entry values.
func (c *FCtx) exitEnv(st *State, results []Val) *CEnv {
	env := &CEnv{c: c, names: map[string]Val{}, st: st, old: c.entry, pkg: c.fi.Pkg}
	for n, obj := range c.params {
		env.names[n] = c.entry.cells[c.entry.vars[obj]]
	}
	rn := resultNames(c.fi, c.con, c.fi.Obj)
	for i, v := range results {
		if i < len(rn) {
			env.names[rn[i]] = v
		}
		env.names[fmt.Sprintf("result%d", i)] = v
		if len(results) == 1 {
			env.names["result"] = v
		}
	}
	return env
}

func (e *Engine) verifyFunc(fi *FuncInfo, con *Contract) (res *FuncResult) {
	res = &FuncResult{Key: fi.Key}
	if con.Trusted != "" {
		res.Trusted = true
		res.Notes = append(res.Notes, "trusted contract (body not verified): "+fi.Key+" — "+con.Trusted)
		return res
	}
	variants := [][2]string{{"", ""}}
	for _, a := range con.Aliases {
		variants = append(variants, a)
	}
	for vi, al := range variants {
		c := e.newCtx(fi, con)
		if vi > 0 {
			c.variant = fmt.Sprintf("alias(%s,%s)", al[0], al[1])
			c.curFunc = fi.Key + "{" + c.variant + "}"
		}
		func() {
			defer func() {
				if r := recover(); r != nil {
					if u, ok := r.(unsupported); ok {
						res.Err = fmt.Sprintf("%s: %s", c.curFunc, u.msg)
						return
					}
					// an internal error of the engine on this function (a construct outside the supported subset that is not
					// diagnosed as such) must not take the whole check down: it is reported like any undecided function
					res.Err = fmt.Sprintf("%s: internal error: %v", c.curFunc, r)
				}
			}()
			c.run(al)
		}()
		res.Obls = append(res.Obls, c.obls...)
		for n := range c.notes {
			res.Notes = append(res.Notes, n)
		}
		if res.Err != "" {
			break
		}
	}
	sort.Strings(res.Notes)
	return res
}

func (c *FCtx) run(alias [2]string) {
	fi, con := c.fi, c.con
	st := &State{vars: map[types.Object]int{}, cells: map[int]Val{}, written: map[int]bool{}}
	c.entry = st // globals created while binding go to the same state
	var order []string
	var rparams []replayParam
	isRecv := map[string]bool{}
	replayable := true
	npos := 0
	bind := func(fl *ast.FieldList, recv bool) {
		if fl == nil {
			return
		}
		for _, f := range fl.List {
			if len(f.Names) == 0 {
				replayable = false
			}
			for _, n := range f.Names {
				if n.Name == "_" {
					replayable = false
					continue
				}
				obj := c.info.Defs[n]
				name := n.Name
				if recs := recordedSig(fi, con, false); recs != nil && npos < len(recs) {
					// the contract's own name for this parameter (it may have been renamed in the source since)
					if rec := recs[npos]; rec != name {
						c.params[name] = obj
						name = rec
					}
				}
				npos++
				c.params[name] = obj
				order = append(order, name)
				isRecv[name] = recv
			}
		}
	}
	bind(fi.Decl.Recv, true)
	bind(fi.Decl.Type.Params, false)
	vals := map[string]Val{}
	for _, n := range order {
		obj := c.params[n]
		var v Val
		other := ""
		if alias[0] != "" && n == alias[1] {
			other = alias[0]
		} else if alias[0] != "" && n == alias[0] {
			other = alias[1]
		}
		if first, ok := vals[other]; ok && other != "" {
			switch x := first.(type) {
			case PV:
				v = PV{Cell: x.Cell, Path: x.Path, IsNil: x.IsNil, Typ: obj.Type()}
			case LV:
				off := Sym(c.freshName(n+"$off"), SInt)
				if con.AliasSame[n+"|"+other] {
					off = x.Off
				}
				ln := Sym(c.freshName(n+"$len"), SInt)
				st.assume(And(Le(Num(0), off), Le(Num(0), ln), Le(ln, NumB(maxLen))))
				v = LV{Cell: x.Cell, Path: x.Path, Off: off, Len: ln, Cap: ln, Elem: x.Elem, IsNil: False(), Typ: obj.Type()}
			default:
				fail("alias of non-reference parameters")
			}
		} else {
			v = c.freshVal(st, n, obj.Type())
			if lv, isLV := v.(LV); isLV && other != "" && !lv.Str {
				// the first of two aliased slices: an arbitrary window of the shared backing store
				off := Sym(c.freshName(n+"$off"), SInt)
				st.assume(Le(Num(0), off))
				lv.Off = off
				v = lv
			}
		}
		vals[n] = v
		c.declare(st, obj, v)
		c.recordInputs(n, v, st)
		rparams = append(rparams, replayParam{Name: n, Typ: obj.Type(), V: v, Recv: isRecv[n]})
	}
	// named results
	if fi.Decl.Type.Results != nil {
		for _, f := range fi.Decl.Type.Results.List {
			for _, n := range f.Names {
				obj := c.info.Defs[n]
				c.declare(st, obj, c.zeroVal(st, obj.Type()))
				c.results = append(c.results, obj)
			}
		}
	}
	st.written = map[int]bool{}
	// requires
	entrySnap := st.clone()
	c.entry = entrySnap
	if c.variant == "" && replayable {
		c.rpBase = &replayInfo{fi: fi, ctx: c, params: rparams, entry: entrySnap}
	}
	penv := c.exitEnv(st, nil)
	penv.old = entrySnap
	for _, rq := range con.Requires {
		if rq.visible(c.prop) {
			st.assume(penv.evalBool(rq.E))
		}
	}
	// lemmas named by `use` are hypotheses here (each is discharged on its own as a lemma obligation)
	for _, ln := range con.Uses {
		var lem *Lemma
		for _, x := range c.eng.cs.Lemmas {
			if x.Name == ln {
				lem = x
			}
		}
		if lem == nil {
			fail("contract of %s uses unknown lemma %s", fi.Key, ln)
		}
		lenv := &CEnv{c: c, names: map[string]Val{}, st: st, old: st, pkg: fi.Pkg}
		lt := lenv.evalBool(lem.E)
		lemmaHypMu.Lock()
		lemmaHyp[lt] = true
		lemmaHypMu.Unlock()
		st.assume(lt)
		c.note("uses lemma " + ln + " (discharged separately)")
	}
	// cells created while evaluating requires (globals) must be in the snapshot too
	for k, v := range st.cells {
		if _, ok := entrySnap.cells[k]; !ok {
			entrySnap.cells[k] = v
		}
	}
	entrySnap.pc = append([]*Term(nil), st.pc...)
	// vacuity guard: the precondition is satisfiable
	c.oblige(st, "cover", "cover-pre", True(), con.Pos)
	if n := len(c.obls); n > 0 {
		c.obls[n-1].ExpectSat = true
	} else {
		c.obls = append(c.obls, &Obligation{Name: c.curFunc + "/cover-pre", Func: fi.Key, Kind: "cover", Hyps: append([]*Term(nil), st.pc...), Goal: True(), ExpectSat: true, Pos: con.Pos, Variant: c.variant})
	}
	// ghost call flags for `called("pkg.F", k)` in exit / ensures clauses: false at entry, set at the call site
	c.ghosts = map[string]*types.Var{}
	for _, key := range calledKeys(con) {
		g := types.NewVar(token.NoPos, fi.Pkg.Types, "ncalls_"+strings.NewReplacer(".", "_", "#", "_", "/", "_").Replace(key), types.Typ[types.Int])
		c.ghosts[key] = g
		c.declare(st, g, intSV(Num(0)))
	}
	c.exitApplied = map[int]int{}
	flows := c.execBlock(st, fi.Decl.Body.List)
	flows = append(flows, c.takeSide()...)
	defer func() {
		for k, en := range con.Exits {
			if en.visible(c.prop) && c.exitApplied[k] == 0 && recover() == nil {
				fail("exit clause %d of %s applies to no return statement (%s)", k+1, c.curFunc, en.Src)
			}
		}
	}()
	nret := 0
	for _, f := range flows {
		switch f.kind {
		case fNormal, fReturn:
			if f.kind == fNormal && c.curSig.Results().Len() > 0 && len(c.results) == 0 {
				fail("function falls off its end")
			}
			if f.kind == fNormal {
				for _, r := range c.results {
					f.results = append(f.results, c.readPlace(f.st, Place{Cell: f.st.vars[r]}))
				}
				f.pos = c.eng.pos(fi.Decl.Body) + "(end)"
				f.retPos = fi.Decl.Body.Rbrace
			}
			nret++
			c.checkReturn(f)
		case fPanic:
			c.checkPanic(f)
		default:
			fail("flow kind %d escapes the function body", f.kind)
		}
	}
}

func (c *FCtx) recordInputs(name string, v Val, st *State) {
	switch x := v.(type) {
	case SV:
		c.inputs[name] = x.T
	case AV:
		c.inputs[name] = x.T
	case LV:
		c.inputs[name+"$len"] = x.Len
		if mv, ok := st.cells[x.Cell].(MV); ok {
			c.inputs[name+"$mem"] = mv.T
		}
	case PV:
		if cv, ok := st.cells[x.Cell]; ok {
			c.recordInputs("*"+name, cv, st)
		}
	case TV:
		stt := x.Typ.Underlying().(*types.Struct)
		for i, f := range x.Fs {
			c.recordInputs(name+"."+stt.Field(i).Name(), f, st)
		}
	}
}

func (c *FCtx) checkReturn(f Flow) {
	con := c.con
	for _, ln := range con.UsesLate {
		var lem *Lemma
		for _, x := range c.eng.cs.Lemmas {
			if x.Name == ln {
				lem = x
			}
		}
		if lem == nil {
			fail("contract of %s uses unknown lemma %s", c.fi.Key, ln)
		}
		lenv := &CEnv{c: c, names: map[string]Val{}, st: f.st, old: f.st, pkg: c.fi.Pkg}
		lt := lenv.evalBool(lem.E)
		lemmaHypMu.Lock()
		lemmaHyp[lt] = true
		lemmaHypMu.Unlock()
		f.st.assume(lt)
		c.note("uses lemma " + ln + " (discharged separately)")
	}
	if c.rpBase != nil && c.inlineDepth == 0 {
		cp := *c.rpBase
		cp.post, cp.results = f.st, f.results
		c.rpCur = &cp
		defer func() { c.rpCur = nil }()
	}
	env := c.exitEnv(f.st, f.results)
	if len(con.Exits) > 0 && f.retPos.IsValid() {
		// internal postconditions may mention the locals in scope at this return statement
		benv := c.bodyEnv(f.st, f.retPos)
		xenv := *env
		xenv.lookup = benv.lookup
		for k, en := range con.Exits {
			if !en.visible(c.prop) {
				continue
			}
			// a clause that names locals not yet in scope at this return statement does not apply to it
			t, ok := func() (t *Term, ok bool) {
				defer func() {
					if r := recover(); r != nil {
						if u, isU := r.(unsupported); isU && strings.Contains(u.msg, "unknown identifier") {
							ok = false
							return
						}
						panic(r)
					}
				}()
				return xenv.evalBool(en.E), true
			}()
			if !ok {
				continue
			}
			c.exitApplied[k]++
			c.oblige(f.st, "exit", fmt.Sprintf("exit[%d] %s @return %s", k+1, en.Src, lineOf(f.pos)), t, f.pos)
			f.st.assume(t) // proved above: later exit clauses and the ensures clauses may use it (cut point)
		}
	}
	// `return k assert E`: the k-th return statement (source order) is reached only when E holds (E may name locals)
	if rs, ok := f.node.(*ast.ReturnStmt); ok && c.fi != nil && len(con.Returns) > 0 {
		ord := c.fi.RetOrd[rs]
		for k, cl := range con.Returns[ord] {
			if !cl.visible(c.prop) {
				continue
			}
			renv := c.bodyEnv(f.st, rs.Pos())
			t := renv.evalBool(cl.E)
			c.oblige(f.st, "assert", fmt.Sprintf("return[%d]/assert[%d] %s", ord, k+1, cl.Src), t, f.pos)
			f.st.assume(t)
		}
	}
	for k, en := range con.Ensures {
		if !en.visible(c.prop) {
			continue
		}
		c.oblige(f.st, "ensures", fmt.Sprintf("ensures[%d] %s @return %s", k+1, en.Src, lineOf(f.pos)), env.evalBool(en.E), f.pos)
	}
	// declared refusals are complete: on a normal return no `when` condition held at entry
	for _, pc := range con.Panics {
		if pc.When == nil || !pc.When.visible(c.prop) {
			continue
		}
		eenv := c.exitEnv(c.entry, nil)
		eenv.old = c.entry
		c.oblige(f.st, "refusal", fmt.Sprintf("panics[%q]/refused-when-stated @return %s", pc.Msg, lineOf(f.pos)), Not(eenv.evalBool(pc.When.E)), f.pos)
	}
	c.checkFrame(f, false)
	// reach guard
	c.oblige(f.st, "reach", "reach/return "+lineOf(f.pos), False(), f.pos)
	if n := len(c.obls); n > 0 && c.obls[n-1].Kind == "reach" && c.obls[n-1].Goal.IsFalse() {
		c.obls[n-1].ExpectSat = true
		c.obls[n-1].Group = c.curFunc + "/reach-return"
	}
}

func lineOf(pos string) string {
	if i := strings.LastIndex(pos, ":"); i >= 0 {
		return "L" + pos[i+1:]
	}
	return pos
}

func (c *FCtx) checkPanic(f Flow) {
	con := c.con
	var clause *PanicClause
	for _, pc := range con.Panics {
		if pc.Msg == f.msg {
			clause = pc
		}
	}
	if clause == nil {
		// an undeclared refusal must be unreachable
		c.oblige(f.st, "refusal", fmt.Sprintf("undeclared-panic[%q] unreachable %s", f.msg, lineOf(f.pos)), False(), f.pos)
		return
	}
	if clause.When != nil && clause.When.visible(c.prop) {
		eenv := c.exitEnv(c.entry, nil)
		eenv.old = c.entry
		c.oblige(f.st, "refusal", fmt.Sprintf("panics[%q]/only-when %s", f.msg, lineOf(f.pos)), eenv.evalBool(clause.When.E), f.pos)
	}
	c.checkFrame(f, true)
}

// checkFrame: caller-visible memory outside the assigns clause is unchanged (at panics: all of it).
func (c *FCtx) checkFrame(f Flow, atPanic bool) {
	con := c.con
	varCells := map[int]bool{}
	for _, id := range c.entry.vars {
		varCells[id] = true
	}
	byCell := map[int][]Region{}
	if !atPanic {
		env := c.exitEnv(c.entry, nil)
		env.old = c.entry
		for _, a := range con.Assigns {
			r := env.region(a.E)
			r.Src = a.Src
			byCell[r.Cell] = append(byCell[r.Cell], r)
		}
	}
	ids := make([]int, 0, len(c.entry.cells))
	for id := range c.entry.cells {
		ids = append(ids, id)
	}
	sort.Ints(ids)
	for _, id := range ids {
		if varCells[id] {
			continue
		}
		ev := c.entry.cells[id]
		fv, ok := f.st.cells[id]
		if !ok || sameVal(ev, fv) {
			continue
		}
		goal := c.frameGoal(ev, fv, byCell[id])
		what := "frame"
		if atPanic {
			what = fmt.Sprintf("panics[%q]/state-unchanged", f.msg)
		}
		c.oblige(f.st, "frame", fmt.Sprintf("%s %s %s", what, c.cellDesc(id), lineOf(f.pos)), goal, f.pos)
	}
}

// frameRegions: the assigns clause evaluated in the entry state, grouped by cell.
func (c *FCtx) frameRegions() map[int][]Region {
	byCell := map[int][]Region{}
	env := c.exitEnv(c.entry, nil)
	env.old = c.entry
	for _, a := range c.con.Assigns {
		r := env.region(a.E)
		r.Src = a.Src
		byCell[r.Cell] = append(byCell[r.Cell], r)
	}
	return byCell
}

// autoFrame: for the caller-visible array cells in ids, "everything outside the assigns clause still has its
// entry value" as a quantified formula.  Proved at loop entry and after the body, assumed at the loop head, so
// contracts do not have to repeat frame conditions in every loop invariant.
func (c *FCtx) autoFrame(st *State, ids []int) []*Term {
	if c.inlineDepth > 0 || c.con == nil {
		return nil
	}
	varCells := map[int]bool{}
	for _, id := range c.entry.vars {
		varCells[id] = true
	}
	var out []*Term
	var regs map[int][]Region
	for _, id := range ids {
		ev, ok := c.entry.cells[id]
		if !ok || varCells[id] {
			continue
		}
		cv := st.cells[id]
		if sameVal(ev, cv) {
			continue
		}
		var a, b *Term
		switch x := ev.(type) {
		case MV:
			y, ok := cv.(MV)
			if !ok {
				continue
			}
			a, b = x.T, y.T
		case AV:
			y, ok := cv.(AV)
			if !ok {
				continue
			}
			a, b = x.T, y.T
		default:
			continue
		}
		if regs == nil {
			regs = c.frameRegions()
		}
		q := Sym(c.freshName("q"), SInt)
		var outside []*Term
		full := false
		for _, r := range regs[id] {
			switch {
			case len(r.Path) == 0 && !r.Ranged:
				full = true
			case len(r.Path) == 0 && r.Ranged:
				outside = append(outside, Or(Lt(q, r.Lo), Ge(q, r.Hi)))
			case len(r.Path) == 1 && r.Path[0].IsIdx && !r.Ranged:
				outside = append(outside, Ne(q, r.Path[0].Idx))
			default:
				full = true // shapes the frame check handles element-wise are not auto-framed
			}
		}
		if full {
			continue
		}
		out = append(out, Forall([]*Term{q}, Implies(And(outside...), Eq(Select(b, q), Select(a, q))), Select(b, q)))
	}
	return out
}

func (c *FCtx) cellDesc(id int) string {
	// describe an entry cell by the parameter that reaches it
	for n, obj := range c.params {
		v := c.entry.cells[c.entry.vars[obj]]
		switch x := v.(type) {
		case PV:
			if x.Cell == id {
				return "*" + n
			}
		case LV:
			if x.Cell == id {
				return n + "[..]"
			}
		}
	}
	return fmt.Sprintf("cell%d", id)
}

func (c *FCtx) frameGoal(ev, fv Val, regs []Region) *Term {
	for _, r := range regs {
		if len(r.Path) == 0 && !r.Ranged {
			return True()
		}
	}
	switch x := ev.(type) {
	case TV:
		y, ok := fv.(TV)
		if !ok {
			return False()
		}
		var cs []*Term
		for i := range x.Fs {
			var sub []Region
			for _, r := range regs {
				if len(r.Path) > 0 && !r.Path[0].IsIdx && r.Path[0].Field == i {
					rr := r
					rr.Path = r.Path[1:]
					sub = append(sub, rr)
				}
			}
			if sameVal(x.Fs[i], y.Fs[i]) {
				continue
			}
			cs = append(cs, c.frameGoal(x.Fs[i], y.Fs[i], sub))
		}
		return And(cs...)
	case AV, MV:
		var a, b *Term
		var elem types.Type
		var n *Term
		if av, ok := x.(AV); ok {
			a, b = av.T, fv.(AV).T
			at := av.Typ.Underlying().(*types.Array)
			elem = at.Elem()
			n = Num(at.Len())
		} else {
			mv := x.(MV)
			a, b = mv.T, fv.(MV).T
			elem = mv.Elem
		}
		q := Sym(c.freshName("q"), SInt)
		var outside []*Term
		for _, r := range regs {
			switch {
			case len(r.Path) == 0 && r.Ranged:
				outside = append(outside, Or(Lt(q, r.Lo), Ge(q, r.Hi)))
			case len(r.Path) == 1 && r.Path[0].IsIdx && !r.Ranged:
				outside = append(outside, Ne(q, r.Path[0].Idx))
			default:
				fail("assigns item %s: shape not supported by the frame check", r.Src)
			}
		}
		if n != nil {
			outside = append(outside, Le(Num(0), q), Lt(q, n))
		}
		// skolemised: q is a fresh constant, so the goal is quantifier-free
		return Implies(And(outside...), c.elemEq(Select(b, q), Select(a, q), elem))
	case SV:
		y, ok := fv.(SV)
		if !ok || x.T.S != y.T.S {
			return False()
		}
		return Eq(x.T, y.T)
	case LV:
		y, ok := fv.(LV)
		if !ok || x.Cell != y.Cell {
			return False()
		}
		return And(Eq(x.Off, y.Off), Eq(x.Len, y.Len))
	case PV:
		y, ok := fv.(PV)
		if !ok || x.Cell != y.Cell || !samePath(x.Path, y.Path) {
			return False()
		}
		return True()
	}
	fail("frame check on %T", ev)
	return nil
}

// ---- lemmas ------------------------------------------------------------------------------------------------

// inductionObligations: lemma `forall n, xs :: body` proved by induction on n: base body[n:=0] (for all xs) and
// step: for an arbitrary n >= 0, (forall xs :: body) ==> (forall xs :: body[n:=n+1]).
func (e *Engine) inductionObligations(l *Lemma) ([]*Obligation, error) {
	if l.E.Kind != "forall" {
		return nil, fmt.Errorf("lemma %s: induction needs a top-level forall", l.Name)
	}
	var rest []string
	found := false
	for _, v := range l.E.Vars {
		if v == l.Induct {
			found = true
		} else {
			rest = append(rest, v)
		}
	}
	if !found {
		return nil, fmt.Errorf("lemma %s: induction variable %s is not bound by the top-level forall", l.Name, l.Induct)
	}
	wrap := func(body *CExpr) *CExpr {
		if len(rest) == 0 {
			return body
		}
		return &CExpr{Kind: "forall", Vars: rest, X: body, Pos: l.Pos}
	}
	zero := &CExpr{Kind: "num", Num: big.NewInt(0), Pos: l.Pos}
	nId := &CExpr{Kind: "ident", Name: l.Induct, Pos: l.Pos}
	succ := &CExpr{Kind: "bin", Op: "+", X: nId, Y: &CExpr{Kind: "num", Num: big.NewInt(1), Pos: l.Pos}, Pos: l.Pos}
	base := &Lemma{Name: l.Name + "/base", Tags: l.Tags, E: wrap(substIdent(l.E.X, l.Induct, zero)), Pos: l.Pos, Uses: l.Uses}
	stepBody := &CExpr{Kind: "bin", Op: "==>", Pos: l.Pos,
		X: &CExpr{Kind: "bin", Op: "&&", Pos: l.Pos, X: &CExpr{Kind: "bin", Op: ">=", X: nId, Y: zero, Pos: l.Pos}, Y: wrap(l.E.X)},
		Y: wrap(substIdent(l.E.X, l.Induct, succ))}
	step := &Lemma{Name: l.Name + "/step", Tags: l.Tags, E: &CExpr{Kind: "forall", Vars: []string{l.Induct}, X: stepBody, Pos: l.Pos}, Pos: l.Pos, Uses: l.Uses}
	var out []*Obligation
	for _, x := range []*Lemma{base, step} {
		o, err := e.lemmaObligation(x)
		if err != nil {
			return nil, err
		}
		out = append(out, o)
	}
	return out, nil
}

func (e *Engine) lemmaObligation(l *Lemma) (o *Obligation, err error) {
	defer func() {
		if r := recover(); r != nil {
			if u, ok := r.(unsupported); ok {
				err = fmt.Errorf("lemma %s: %s", l.Name, u.msg)
				return
			}
			panic(r)
		}
	}()
	c := &FCtx{eng: e, prop: e.prop, notes: map[string]bool{}, globals: map[types.Object]int{}, oblSeen: map[string]int{}, rangeCtr: map[ast.Node]types.Object{}, pow2Of: map[*Term]*Term{}, maskOf: map[*Term]*Term{}}
	st := &State{vars: map[types.Object]int{}, cells: map[int]Val{}, written: map[int]bool{}}
	c.entry = st
	// lemmas may name constants of any package through a qualifier; default package: dilithium
	env := &CEnv{c: c, names: map[string]Val{}, st: st, old: st, pkg: e.byName["dilithium"]}
	if strings.Contains(l.Name, ".") {
		if p, ok := e.byName[strings.SplitN(l.Name, ".", 2)[0]]; ok {
			env.pkg = p
		}
	}
	var reveal, hideL []string
	for _, un := range l.Uses {
		if strings.HasPrefix(un, "spec.") {
			reveal = append(reveal, un)
			continue
		}
		if strings.HasPrefix(un, "-spec.") { // `uses -spec.f`: the defining axiom of f is withheld from this lemma's VC
			hideL = append(hideL, strings.TrimPrefix(un, "-"))
			continue
		}
		var dep *Lemma
		for idx, x := range e.cs.Lemmas {
			if x.Name == un {
				dep = x
				// only lemmas stated earlier may be used: rules out circular justification
				for idx2, y := range e.cs.Lemmas {
					if strings.HasPrefix(l.Name, y.Name) && (y.Name == l.Name || strings.HasPrefix(l.Name, y.Name+"/")) && idx2 <= idx {
						return nil, fmt.Errorf("lemma %s uses %s which is not stated before it", l.Name, un)
					}
				}
			}
		}
		if dep == nil {
			return nil, fmt.Errorf("lemma %s uses unknown lemma %s", l.Name, un)
		}
		st.assume(env.evalBool(dep.E))
	}
	goal := env.evalBool(l.E)
	return &Obligation{Name: "lemma/" + l.Name, Func: "lemma", Kind: "lemma", Hyps: append([]*Term(nil), st.pc...), Goal: goal, Pos: l.Pos, Reveal: reveal, HideSpec: hideL}, nil
}
