package main

// Engine: loads /repo's working tree (typed AST), indexes functions, holds contracts and the spec prelude.

import (
	"encoding/hex"
	"crypto/sha256"
	"fmt"
	"go/ast"
	"go/constant"
	"go/token"
	"go/types"
	"os"
	"path/filepath"
	"sort"
	"strings"

	"golang.org/x/tools/go/packages"
)

type FuncInfo struct {
	Key  string
	Decl *ast.FuncDecl
	Pkg  *packages.Package
	Obj  *types.Func
	Loops map[ast.Node]int // ordinal (1-based, pre-order) of each for/range statement
	NLoops int
	Anchors map[ast.Stmt][]string // block-level statement -> "callee#k" of the calls it contains outside nested blocks (source order ordinals)
	CallOrd map[string]int        // callee key -> number of call sites in the body
	GotoOrd map[*ast.BranchStmt]int // goto statements: ordinal (1-based, source order) among the gotos to the same label
	NGotos  map[string]int
	RetOrd  map[*ast.ReturnStmt]int // return statements: ordinal (1-based, source order), closures excluded
	DeclOrder []*types.Var // receiver, parameters, named results, then every local variable in order of declaration
	NSigIn, NSigOut int    // how many of DeclOrder are receiver+parameters / named results
	LoopFP  []string              // fingerprint of loop k+1: its statement with variables replaced by position-independent tokens (see loopFingerprints)
	DeclTag map[*types.Var]string // loop role of a variable: "<ord>i" declared by the init statement of loop ord, "<ord>k" / "<ord>v" range key / value
	NRets   int
}

type Engine struct {
	repo   string
	fset   *token.FileSet
	pkgs   []*packages.Package
	byName map[string]*packages.Package
	funcs  map[string]*FuncInfo
	byObj  map[*types.Func]*FuncInfo
	cs     *ContractSet
	spec   *SpecPrelude
	prop   string
	tier   string
	notes  map[string]bool
	contractErrs map[string]string
}

func goEnv() []string {
	env := os.Environ()
	env = append(env, "GOFLAGS=-mod=mod", "GOPROXY=off", "GOSUMDB=off", "GOTOOLCHAIN=local", "CGO_ENABLED=0")
	return env
}

func funcKey(fn *types.Func) string {
	sig := fn.Type().(*types.Signature)
	pkg := ""
	if fn.Pkg() != nil {
		pkg = fn.Pkg().Name()
	}
	if r := sig.Recv(); r != nil {
		t := r.Type()
		if p, ok := t.(*types.Pointer); ok {
			t = p.Elem()
		}
		name := t.String()
		if n, ok := t.(*types.Named); ok {
			name = n.Obj().Name()
		}
		return pkg + "." + name + "." + fn.Name()
	}
	return pkg + "." + fn.Name()
}

func LoadEngine(repo string) (*Engine, error) {
	e := &Engine{repo: repo, byName: map[string]*packages.Package{}, funcs: map[string]*FuncInfo{}, byObj: map[*types.Func]*FuncInfo{}, notes: map[string]bool{}}
	e.fset = token.NewFileSet()
	cfg := &packages.Config{Mode: packages.LoadAllSyntax, Dir: repo, BuildFlags: []string{"-tags=verif"}, Env: goEnv(), Fset: e.fset}
	pkgs, err := packages.Load(cfg, "./...")
	if err != nil {
		return nil, err
	}
	for _, p := range pkgs {
		if len(p.Errors) > 0 {
			return nil, fmt.Errorf("package %s does not type-check: %v", p.PkgPath, p.Errors[0])
		}
	}
	e.pkgs = pkgs
	for _, p := range pkgs {
		e.byName[p.Name] = p
		if p.Name == "main" {
			continue
		}
		for _, f := range p.Syntax {
			fname := e.fset.Position(f.Pos()).Filename
			if strings.HasSuffix(fname, "_test.go") {
				continue
			}
			for _, d := range f.Decls {
				fd, ok := d.(*ast.FuncDecl)
				if !ok || fd.Body == nil {
					continue
				}
				obj := p.TypesInfo.Defs[fd.Name].(*types.Func)
				fi := &FuncInfo{Key: funcKey(obj), Decl: fd, Pkg: p, Obj: obj, Loops: map[ast.Node]int{}}
				n := 0
				ast.Inspect(fd.Body, func(nd ast.Node) bool {
					switch nd.(type) {
					case *ast.ForStmt, *ast.RangeStmt:
						n++
						fi.Loops[nd] = n
					case *ast.FuncLit:
						return false
					}
					return true
				})
				fi.NLoops = n
				e.indexAnchors(fi)
				e.funcs[fi.Key] = fi
				e.byObj[obj] = fi
			}
		}
	}
	// contracts: every zz_contracts_verif.go in the repo + /verif/spec/*.contracts
	e.cs = NewContractSet()
	for _, p := range pkgs {
		for _, f := range p.GoFiles {
			if filepath.Base(f) == "zz_contracts_verif.go" {
				if err := e.cs.ReadFile(f, p.Name, false); err != nil {
					return nil, err
				}
			}
		}
	}
	return e, nil
}

func (e *Engine) LoadSpec(dir string) error {
	ents, _ := os.ReadDir(dir)
	var smt []string
	for _, en := range ents {
		p := filepath.Join(dir, en.Name())
		switch {
		case strings.HasSuffix(en.Name(), ".contracts"):
			if err := e.cs.ReadFile(p, "", true); err != nil {
				return err
			}
		case strings.HasSuffix(en.Name(), ".smt2"):
			smt = append(smt, p)
		}
	}
	sort.Strings(smt)
	sp, err := LoadPrelude(smt)
	if err != nil {
		return err
	}
	e.spec = sp
	// every contract must name an existing function and existing loops.  A mismatch means the code under
	// contract changed shape: the obligations of that function can no longer be generated, which is reported by
	// the checks whose closure contains the function (as an undischarged obligation), not as a tool failure.
	e.contractErrs = map[string]string{}
	for k, c := range e.cs.Funcs {
		if c.External {
			continue
		}
		fi, ok := e.funcs[k]
		if !ok {
			e.contractErrs[k] = fmt.Sprintf("%s: contract names function %s which does not exist in the working tree", c.Pos, k)
			continue
		}
		for ak := range c.Afters {
			i := strings.LastIndex(ak, "#")
			n := 0
			fmt.Sscanf(ak[i+1:], "%d", &n)
			if n < 1 || n > fi.CallOrd[ak[:i]] {
				e.contractErrs[k] = fmt.Sprintf("%s: contract of %s anchors an assertion after call %s but the function has %d call(s) of %s", c.Pos, k, ak, fi.CallOrd[ak[:i]], ak[:i])
			}
		}
		for rk := range c.Returns {
			if rk < 1 || rk > fi.NRets {
				e.contractErrs[k] = fmt.Sprintf("%s: contract of %s names return %d but the function has %d return statements", c.Pos, k, rk, fi.NRets)
			}
		}
		for gk := range c.Gotos {
			i := strings.LastIndex(gk, "#")
			n := 0
			fmt.Sscanf(gk[i+1:], "%d", &n)
			if n < 1 || n > fi.NGotos[gk[:i]] {
				e.contractErrs[k] = fmt.Sprintf("%s: contract of %s names goto %s but the function has %d goto(s) to %s", c.Pos, k, gk, fi.NGotos[gk[:i]], gk[:i])
			}
		}
		for n := range c.Loops {
			if n < 0 || n > fi.NLoops {
				// the function has fewer loops than when the contract was written (e.g. a loop was unrolled or replaced by a
				// library call): the clauses of the missing loops are dropped and the rest of the contract is still checked;
				// loops without invariants are unrolled up to a bound that is itself an obligation.
				delete(c.Loops, n)
				e.notes[fmt.Sprintf("contract of %s names loop %d but the function has %d loops: the clauses of that loop are ignored", k, n, fi.NLoops)] = true
			}
		}
	}
	return nil
}

// constant lookup for contract expressions: package-level constants of pkg (and qualified other.pkg.Name)
func (e *Engine) lookupConst(pkg *packages.Package, qual, name string) (constant.Value, types.Type, bool) {
	p := pkg
	if qual != "" {
		q, ok := e.byName[qual]
		if !ok {
			return nil, nil, false
		}
		p = q
	}
	if p == nil {
		return nil, nil, false
	}
	obj := p.Types.Scope().Lookup(name)
	if c, ok := obj.(*types.Const); ok {
		return c.Val(), c.Type(), true
	}
	return nil, nil, false
}

func (e *Engine) pos(n ast.Node) string {
	p := e.fset.Position(n.Pos())
	rel, err := filepath.Rel(e.repo, p.Filename)
	if err != nil {
		rel = p.Filename
	}
	return fmt.Sprintf("%s:%d", rel, p.Line)
}

// indexAnchors numbers the call sites of each callee in source order and attaches them to the block-level
// statement that contains them (nested blocks own their own statements).
// declOrder lists the variables a function declares, in source order.  A `names` clause records their names at the
// time the contract was written; when a variable has been renamed since, the contract's name is resolved through
// its position in this list (a renaming of locals or parameters is not a reason to raise an alarm).
func (e *Engine) declOrder(fi *FuncInfo) {
	info := fi.Pkg.TypesInfo
	fi.DeclOrder = nil
	add := func(fl *ast.FieldList) int {
		n := 0
		if fl == nil {
			return 0
		}
		for _, f := range fl.List {
			for _, id := range f.Names {
				if v, ok := info.Defs[id].(*types.Var); ok {
					fi.DeclOrder = append(fi.DeclOrder, v)
					n++
				}
			}
		}
		return n
	}
	fi.NSigIn = add(fi.Decl.Recv) + add(fi.Decl.Type.Params)
	fi.NSigOut = add(fi.Decl.Type.Results)
	if fi.Decl.Body == nil {
		return
	}
	ast.Inspect(fi.Decl.Body, func(nd ast.Node) bool {
		if _, ok := nd.(*ast.FuncLit); ok {
			return false
		}
		if id, ok := nd.(*ast.Ident); ok {
			if v, ok := info.Defs[id].(*types.Var); ok && !v.IsField() {
				fi.DeclOrder = append(fi.DeclOrder, v)
			}
		}
		return true
	})
}

// loopFingerprints: a hash of every loop statement in which variables are written as tokens that survive renaming and
// the reordering of branches: a variable declared by a loop is `$L`, any other variable is `$<n>` with n its rank among
// the function's non-loop variables, everything else (functions, constants, fields, literals, operators) is kept.  When
// an edit swaps the branches of an if / the cases of a switch, the loops inside change their ordinals but not their
// fingerprints, and the contract's `loop k` clauses follow them (loopRecorded).
func (e *Engine) loopFingerprints(fi *FuncInfo) {
	fi.LoopFP = make([]string, fi.NLoops)
	info := fi.Pkg.TypesInfo
	rank := map[*types.Var]int{}
	n := 0
	for _, v := range fi.DeclOrder {
		if fi.DeclTag[v] == "" {
			rank[v] = n
			n++
		}
	}
	for nd, ord := range fi.Loops {
		var sb strings.Builder
		ast.Inspect(nd, func(x ast.Node) bool {
			switch y := x.(type) {
			case nil:
				sb.WriteString(")")
				return false
			case *ast.Ident:
				var obj types.Object = info.Uses[y]
				if obj == nil {
					obj = info.Defs[y]
				}
				if v, ok := obj.(*types.Var); ok && !v.IsField() {
					if fi.DeclTag[v] != "" {
						sb.WriteString("$L ")
					} else if r, ok := rank[v]; ok {
						fmt.Fprintf(&sb, "$%d ", r)
					} else {
						sb.WriteString(y.Name + " ")
					}
				} else {
					sb.WriteString(y.Name + " ")
				}
			case *ast.BasicLit:
				sb.WriteString(y.Value + " ")
			case *ast.BinaryExpr:
				sb.WriteString("(" + y.Op.String() + " ")
			case *ast.UnaryExpr:
				sb.WriteString("(" + y.Op.String() + " ")
			case *ast.AssignStmt:
				sb.WriteString("(" + y.Tok.String() + " ")
			case *ast.IncDecStmt:
				sb.WriteString("(" + y.Tok.String() + " ")
			case *ast.BranchStmt:
				sb.WriteString("(" + y.Tok.String() + " ")
			default:
				fmt.Fprintf(&sb, "(%T ", x)
			}
			return true
		})
		h := sha256.Sum256([]byte(sb.String()))
		// coarse signature: the functions the loop calls (survives edits of the body that keep its job)
		callees := map[string]bool{}
		ast.Inspect(nd, func(x ast.Node) bool {
			if call, ok := x.(*ast.CallExpr); ok {
				switch f := call.Fun.(type) {
				case *ast.Ident:
					if _, isFn := info.Uses[f].(*types.Func); isFn {
						callees[f.Name] = true
					}
				case *ast.SelectorExpr:
					if _, isFn := info.Uses[f.Sel].(*types.Func); isFn {
						callees[f.Sel.Name] = true
					}
				}
			}
			return true
		})
		var cs []string
		for c := range callees {
			cs = append(cs, c)
		}
		sort.Strings(cs)
		fi.LoopFP[ord-1] = hex.EncodeToString(h[:4])
		if len(cs) > 0 {
			fi.LoopFP[ord-1] += ":" + strings.Join(cs, ",")
		}
	}
}

// declTags: which variables are declared by loops (their role is stable under renaming and under added locals)
func (e *Engine) declTags(fi *FuncInfo) {
	fi.DeclTag = map[*types.Var]string{}
	info := fi.Pkg.TypesInfo
	tag := func(ex ast.Expr, t string) {
		if id, ok := ex.(*ast.Ident); ok {
			if v, ok := info.Defs[id].(*types.Var); ok {
				fi.DeclTag[v] = t
			}
		}
	}
	for n, ord := range fi.Loops {
		switch x := n.(type) {
		case *ast.ForStmt:
			if as, ok := x.Init.(*ast.AssignStmt); ok && as.Tok == token.DEFINE {
				for k, l := range as.Lhs {
					if k == 0 {
						tag(l, fmt.Sprintf("%di", ord))
					} else {
						tag(l, fmt.Sprintf("%di%d", ord, k))
					}
				}
			}
		case *ast.RangeStmt:
			if x.Tok == token.DEFINE {
				if x.Key != nil {
					tag(x.Key, fmt.Sprintf("%dk", ord))
				}
				if x.Value != nil {
					tag(x.Value, fmt.Sprintf("%dv", ord))
				}
			}
		}
	}
}

func (e *Engine) indexAnchors(fi *FuncInfo) {
	e.declOrder(fi)
	e.declTags(fi)
	e.loopFingerprints(fi)
	fi.Anchors = map[ast.Stmt][]string{}
	fi.CallOrd = map[string]int{}
	fi.GotoOrd = map[*ast.BranchStmt]int{}
	fi.NGotos = map[string]int{}
	fi.RetOrd = map[*ast.ReturnStmt]int{}
	ast.Inspect(fi.Decl.Body, func(nd ast.Node) bool {
		if _, ok := nd.(*ast.FuncLit); ok {
			return false
		}
		if rs, ok := nd.(*ast.ReturnStmt); ok {
			fi.NRets++
			fi.RetOrd[rs] = fi.NRets
		}
		return true
	})
	ast.Inspect(fi.Decl.Body, func(nd ast.Node) bool {
		if bs, ok := nd.(*ast.BranchStmt); ok && bs.Tok == token.GOTO && bs.Label != nil {
			fi.NGotos[bs.Label.Name]++
			fi.GotoOrd[bs] = fi.NGotos[bs.Label.Name]
		}
		return true
	})
	info := fi.Pkg.TypesInfo
	name := map[*ast.CallExpr]string{}
	ast.Inspect(fi.Decl.Body, func(nd ast.Node) bool {
		if _, ok := nd.(*ast.FuncLit); ok {
			return false
		}
		call, ok := nd.(*ast.CallExpr)
		if !ok {
			return true
		}
		var fn *types.Func
		switch f := call.Fun.(type) {
		case *ast.Ident:
			fn, _ = info.Uses[f].(*types.Func)
		case *ast.SelectorExpr:
			fn, _ = info.Uses[f.Sel].(*types.Func)
		}
		if fn != nil {
			k := funcKey(fn)
			fi.CallOrd[k]++
			name[call] = fmt.Sprintf("%s#%d", k, fi.CallOrd[k])
		}
		return true
	})
	var walkBlock func(stmts []ast.Stmt)
	collect := func(owner ast.Stmt, nd ast.Node) {
		if nd == nil {
			return
		}
		ast.Inspect(nd, func(x ast.Node) bool {
			switch y := x.(type) {
			case *ast.BlockStmt:
				walkBlock(y.List)
				return false
			case *ast.CaseClause:
				for _, ex := range y.List {
					ast.Inspect(ex, func(z ast.Node) bool {
						if c, ok := z.(*ast.CallExpr); ok && name[c] != "" {
							fi.Anchors[owner] = append(fi.Anchors[owner], name[c])
						}
						return true
					})
				}
				walkBlock(y.Body)
				return false
			case *ast.FuncLit:
				return false
			case *ast.CallExpr:
				if name[y] != "" {
					fi.Anchors[owner] = append(fi.Anchors[owner], name[y])
				}
			}
			return true
		})
	}
	walkBlock = func(stmts []ast.Stmt) {
		for _, s := range stmts {
			owner := s
			// `after if k assert E`: the k-th block-level if statement (source order) is an anchor of its own
			if is, ok := s.(*ast.IfStmt); ok {
				fi.CallOrd["if"]++
				fi.Anchors[is] = append(fi.Anchors[is], fmt.Sprintf("if#%d", fi.CallOrd["if"]))
			}
			if ls, ok := s.(*ast.LabeledStmt); ok {
				// the labelled statement is executed as the first statement of the label loop's body
				owner = ls.Stmt
				collect(owner, ls.Stmt)
				continue
			}
			collect(owner, s)
		}
	}
	walkBlock(fi.Decl.Body.List)
}
