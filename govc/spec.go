package main

// Spec prelude: SMT-LIB files under /verif/spec/*.smt2 holding the specification-level
// functions (written from the specification documents, not from the Go code).  The engine
// only needs their signatures and which top-level forms to ship with a given VC.

import (
	"fmt"
	"os"
	"strings"
)

type sexp struct {
	atom string
	list []*sexp
	isList bool
}

func (s *sexp) String() string {
	if !s.isList {
		return s.atom
	}
	var parts []string
	for _, x := range s.list {
		parts = append(parts, x.String())
	}
	return "(" + strings.Join(parts, " ") + ")"
}

func parseSexps(src string) ([]*sexp, error) {
	var stack [][]*sexp
	var cur []*sexp
	i := 0
	for i < len(src) {
		c := src[i]
		switch {
		case c == ';':
			for i < len(src) && src[i] != '\n' {
				i++
			}
		case c == ' ' || c == '\t' || c == '\n' || c == '\r':
			i++
		case c == '(':
			stack = append(stack, cur)
			cur = nil
			i++
		case c == ')':
			if len(stack) == 0 {
				return nil, fmt.Errorf("unbalanced )")
			}
			l := &sexp{list: cur, isList: true}
			cur = stack[len(stack)-1]
			stack = stack[:len(stack)-1]
			cur = append(cur, l)
			i++
		case c == '|':
			j := i + 1
			for j < len(src) && src[j] != '|' {
				j++
			}
			cur = append(cur, &sexp{atom: src[i : j+1]})
			i = j + 1
		case c == '"':
			j := i + 1
			for j < len(src) && src[j] != '"' {
				j++
			}
			cur = append(cur, &sexp{atom: src[i : j+1]})
			i = j + 1
		default:
			j := i
			for j < len(src) && !strings.ContainsRune(" \t\n\r();", rune(src[j])) {
				j++
			}
			cur = append(cur, &sexp{atom: src[i:j]})
			i = j
		}
	}
	if len(stack) != 0 {
		return nil, fmt.Errorf("unbalanced (")
	}
	return cur, nil
}

type specForm struct {
	needs   []string // `;@ needs a b`: ship this axiom only if ALL of these symbols occur in the VC
	defOf   []string // `;@ defines f`: this axiom is the definition of f; dropped in functions whose contract says `hide spec.f`
	text    string
	defines []string
	uses    map[string]bool
	isAxiom bool
	file    string
}

type specSig struct {
	Name string
	Args []Sort
	Res  Sort
}

type SpecPrelude struct {
	forms []*specForm
	sigs  map[string]specSig
	sorts map[string]bool
	files []string
}

func (s *sexp) atoms(out map[string]bool) {
	if !s.isList {
		out[s.atom] = true
		return
	}
	for _, x := range s.list {
		x.atoms(out)
	}
}

func LoadPrelude(files []string) (*SpecPrelude, error) {
	sp := &SpecPrelude{sigs: map[string]specSig{}, sorts: map[string]bool{}, files: files}
	for _, f := range files {
		data, err := os.ReadFile(f)
		if err != nil {
			return nil, err
		}
		forms, err := parseSexps(string(data))
		if err != nil {
			return nil, fmt.Errorf("%s: %v", f, err)
		}
		// `;@ needs sym...` annotations apply to the next top-level form (matched by order of appearance)
		needsFor := map[int][]string{}
		defsFor := map[int][]string{}
		{
			idx := 0
			depth := 0
			var pending, pendingDef []string
			for _, line := range strings.Split(string(data), "\n") {
				t := strings.TrimSpace(line)
				if strings.HasPrefix(t, ";@ needs ") && depth == 0 {
					pending = strings.Fields(strings.TrimPrefix(t, ";@ needs "))
					continue
				}
				if strings.HasPrefix(t, ";@ defines ") && depth == 0 {
					pendingDef = strings.Fields(strings.TrimPrefix(t, ";@ defines "))
					continue
				}
				code := line
				if i := strings.Index(code, ";"); i >= 0 {
					code = code[:i]
				}
				for _, ch := range code {
					if ch == '(' {
						if depth == 0 {
							if pending != nil {
								needsFor[idx] = pending
								pending = nil
							}
							if pendingDef != nil {
								defsFor[idx] = pendingDef
								pendingDef = nil
							}
						}
						depth++
					} else if ch == ')' {
						depth--
						if depth == 0 {
							idx++
						}
					}
				}
			}
		}
		for fi, fm := range forms {
			if !fm.isList || len(fm.list) == 0 {
				continue
			}
			sf := &specForm{text: fm.String(), uses: map[string]bool{}, file: f, needs: needsFor[fi], defOf: defsFor[fi]}
			fm.atoms(sf.uses)
			head := fm.list[0].atom
			switch head {
			case "declare-sort":
				sf.defines = []string{fm.list[1].atom}
				sp.sorts[fm.list[1].atom] = true
			case "declare-fun":
				name := fm.list[1].atom
				var args []Sort
				for _, a := range fm.list[2].list {
					args = append(args, Sort(a.String()))
				}
				sp.sigs[name] = specSig{name, args, Sort(fm.list[3].String())}
				sf.defines = []string{name}
			case "declare-const":
				name := fm.list[1].atom
				sp.sigs[name] = specSig{name, nil, Sort(fm.list[2].String())}
				sf.defines = []string{name}
			case "define-fun", "define-fun-rec":
				name := fm.list[1].atom
				var args []Sort
				for _, a := range fm.list[2].list {
					args = append(args, Sort(a.list[1].String()))
				}
				sp.sigs[name] = specSig{name, args, Sort(fm.list[3].String())}
				sf.defines = []string{name}
			case "assert":
				sf.isAxiom = true
			case "set-logic", "set-option", "set-info":
				continue
			default:
				return nil, fmt.Errorf("%s: unsupported prelude form %s", f, head)
			}
			for _, d := range sf.defines {
				delete(sf.uses, d)
			}
			sp.forms = append(sp.forms, sf)
		}
	}
	return sp, nil
}

// Select the forms needed for a set of used symbols (transitively), in file order.
func (sp *SpecPrelude) closure(used map[string]bool, hide map[string]bool) []*specForm {
	need := map[string]bool{}
	for k := range used {
		need[k] = true
	}
	inc := make([]bool, len(sp.forms))
	for changed := true; changed; {
		changed = false
		for i, f := range sp.forms {
			if inc[i] {
				continue
			}
			take := false
			hidden := false
			for _, d := range f.defOf {
				if hide[d] {
					hidden = true
				}
			}
			if hidden {
				continue
			}
			if f.isAxiom && len(f.needs) > 0 {
				take = true
				for _, n := range f.needs {
					if !need[n] {
						take = false
					}
				}
			} else if f.isAxiom {
				for u := range f.uses {
					if need[u] {
						if _, isSpec := sp.sigs[u]; isSpec {
							take = true
							break
						}
					}
				}
			} else {
				for _, d := range f.defines {
					if need[d] {
						take = true
					}
				}
			}
			if take {
				inc[i] = true
				changed = true
				for u := range f.uses {
					if _, isSpec := sp.sigs[u]; isSpec || sp.sorts[u] {
						if !need[u] {
							need[u] = true
						}
					}
				}
			}
		}
	}
	var out []*specForm
	for i, f := range sp.forms {
		if inc[i] {
			out = append(out, f)
		}
	}
	return out
}

// isDeclared: name is introduced by declare-fun (not a define-fun macro) in the prelude
func (sp *SpecPrelude) isDeclared(name string) bool {
	for _, f := range sp.forms {
		for _, d := range f.defines {
			if d == name {
				return strings.HasPrefix(f.text, "(declare-fun")
			}
		}
	}
	return false
}
