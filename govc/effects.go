package main

// Back end 2 (effects): interprocedural write / read / purity analysis on go/ssa.
// It discharges frame and purity clauses that need no arithmetic: "writes no package-level memory",
// "writes only memory it allocated itself / reachable from its receiver", "result and final state are a
// function of the arguments" (no randomness, time, map-iteration order, goroutines, unsafe, mutable globals).
// It is sound-by-construction in one direction only: anything it cannot classify counts as a violation.

import (
	"fmt"
	"go/token"
	"go/types"
	"sort"
	"strings"

	"golang.org/x/tools/go/ssa"
	"golang.org/x/tools/go/ssa/ssautil"
)

type rootSet struct {
	fresh   bool
	params  map[int]bool
	globals map[string]bool
	unknown []string
}

func newRoots() *rootSet { return &rootSet{params: map[int]bool{}, globals: map[string]bool{}} }
func (r *rootSet) add(o *rootSet) {
	if o == nil {
		return
	}
	r.fresh = r.fresh || o.fresh
	for k := range o.params {
		r.params[k] = true
	}
	for k := range o.globals {
		r.globals[k] = true
	}
	r.unknown = append(r.unknown, o.unknown...)
}

type fnSummary struct {
	fn            *ssa.Function
	writesGlobals map[string]string // global -> site
	writesParams  map[int]string    // param index -> site
	writesUnknown []string
	readsGlobals  map[string]bool
	impure        map[string]bool // reasons
	resultRoots   *rootSet
	dead          map[*ssa.BasicBlock]bool
}

type Effects struct {
	eng    *Engine
	prog   *ssa.Program
	fns    map[string]*ssa.Function // key -> function
	sum    map[*ssa.Function]*fnSummary
	constP map[*ssa.Function]map[int]*bool // parameters that are the same boolean constant at every call site
	nonNilP map[*ssa.Function]map[int]bool // slice parameters that are non-nil at every call site (unexported functions)
	fieldConst map[string]*bool              // "pkg.Type.field" -> constant stored by every store (nil = varies)
	mutableGlobals map[string]bool
	isRepo map[*ssa.Package]bool
}

// external packages whose functions are deterministic and touch only memory reachable from their arguments (T4/T5)
var purePkgs = map[string]bool{
	"golang.org/x/crypto/sha3": true, "crypto/sha256": true, "encoding/hex": true, "strings": true, "bytes": true,
	"fmt": true, "errors": true, "math": true, "hash": true, "io": true, "strconv": true, "unicode/utf8": true, "math/bits": true,
	"encoding/binary": true, "crypto/internal/fips140/sha256": true, "crypto/internal/fips140/sha3": true, "internal/byteorder": true,
}

func (e *Engine) BuildEffects() *Effects {
	prog, spkgs := ssautil.AllPackages(e.pkgs, ssa.InstantiateGenerics)
	prog.Build()
	ef := &Effects{eng: e, prog: prog, fns: map[string]*ssa.Function{}, sum: map[*ssa.Function]*fnSummary{}, constP: map[*ssa.Function]map[int]*bool{},
		fieldConst: map[string]*bool{}, mutableGlobals: map[string]bool{}, isRepo: map[*ssa.Package]bool{}, nonNilP: map[*ssa.Function]map[int]bool{}}
	for _, sp := range spkgs {
		if sp == nil {
			continue
		}
		ef.isRepo[sp] = true
	}
	for fn := range ssautil.AllFunctions(prog) {
		if fn.Pkg == nil || !ef.isRepo[fn.Pkg] || fn.Synthetic != "" && !strings.HasPrefix(fn.Synthetic, "package init") {
			continue
		}
		if fn.Object() == nil {
			continue
		}
		if f, ok := fn.Object().(*types.Func); ok {
			ef.fns[funcKey(f)] = fn
		}
	}
	ef.computeFieldConsts()
	ef.computeConstParams()
	// fixed point over summaries
	for _, fn := range ef.fns {
		ef.sum[fn] = &fnSummary{fn: fn, writesGlobals: map[string]string{}, writesParams: map[int]string{}, readsGlobals: map[string]bool{}, impure: map[string]bool{}, resultRoots: newRoots(), dead: ef.deadBlocks(fn)}
	}
	for iter := 0; iter < 12; iter++ {
		changed := false
		for _, fn := range ef.sortedFns() {
			if ef.analyse(fn) {
				changed = true
			}
		}
		if !changed {
			break
		}
	}
	// globals written anywhere outside package initialisers are mutable
	for _, s := range ef.sum {
		for g := range s.writesGlobals {
			ef.mutableGlobals[g] = true
		}
	}
	return ef
}

func (ef *Effects) sortedFns() []*ssa.Function {
	var ks []string
	for k := range ef.fns {
		ks = append(ks, k)
	}
	sort.Strings(ks)
	var out []*ssa.Function
	for _, k := range ks {
		out = append(out, ef.fns[k])
	}
	return out
}

func (ef *Effects) pos(p token.Pos) string {
	ps := ef.prog.Fset.Position(p)
	return fmt.Sprintf("%s:%d", strings.TrimPrefix(ps.Filename, ef.eng.repo+"/"), ps.Line)
}

func fieldKey(t types.Type, idx int) string {
	if p, ok := t.Underlying().(*types.Pointer); ok {
		t = p.Elem()
	}
	st, ok := t.Underlying().(*types.Struct)
	if !ok {
		return ""
	}
	return typeName(t) + "." + st.Field(idx).Name()
}

// computeFieldConsts: for boolean struct fields, the single constant stored by every store in the program.
func (ef *Effects) computeFieldConsts() {
	varies := map[string]bool{}
	for _, fn := range ef.fns {
		for _, b := range fn.Blocks {
			for _, ins := range b.Instrs {
				st, ok := ins.(*ssa.Store)
				if !ok {
					continue
				}
				fa, ok := st.Addr.(*ssa.FieldAddr)
				if !ok {
					continue
				}
				k := fieldKey(fa.X.Type(), fa.Field)
				if k == "" {
					continue
				}
				c, isC := st.Val.(*ssa.Const)
				if !isC || c.Value == nil || !isBool(c.Type()) {
					// a non-constant store: if it copies a parameter that is itself constant we still give up (conservative)
					varies[k] = true
					continue
				}
				v := c.Value.String() == "true"
				if prev, ok := ef.fieldConst[k]; ok && prev != nil && *prev != v {
					varies[k] = true
				}
				ef.fieldConst[k] = &v
			}
		}
	}
	for k := range varies {
		ef.fieldConst[k] = nil
	}
	// the zero value (false) is also a possible content of any field of a zero-initialised struct
	for k, v := range ef.fieldConst {
		if v != nil && *v {
			ef.fieldConst[k] = nil
		}
	}
}

func (ef *Effects) constBool(v ssa.Value, caller *ssa.Function) *bool {
	switch x := v.(type) {
	case *ssa.Const:
		if x.Value != nil && isBool(x.Type()) {
			b := x.Value.String() == "true"
			return &b
		}
	case *ssa.UnOp:
		if x.Op == token.MUL {
			if fa, ok := x.X.(*ssa.FieldAddr); ok {
				if c, ok := ef.fieldConst[fieldKey(fa.X.Type(), fa.Field)]; ok {
					return c
				}
			}
		}
	case *ssa.Parameter:
		for i, p := range caller.Params {
			if p == x {
				if m := ef.constP[caller]; m != nil {
					return m[i]
				}
			}
		}
	case *ssa.BinOp:
		// p == nil / p != nil for a slice parameter that is non-nil at every call site
		if x.Op == token.EQL || x.Op == token.NEQ {
			if c, ok := x.Y.(*ssa.Const); ok && c.Value == nil {
				if p, ok := x.X.(*ssa.Parameter); ok {
					for i, q := range caller.Params {
						if q == p && ef.nonNilP[caller] != nil && ef.nonNilP[caller][i] {
							b := x.Op == token.NEQ
							return &b
						}
					}
				}
			}
		}
	}
	return nil
}

func nonNilValue(v ssa.Value) bool {
	switch x := v.(type) {
	case *ssa.Slice:
		// slicing an array (through a pointer) always yields a non-nil slice
		if p, ok := x.X.Type().Underlying().(*types.Pointer); ok {
			_, isArr := p.Elem().Underlying().(*types.Array)
			return isArr
		}
	case *ssa.MakeSlice, *ssa.Alloc:
		return true
	}
	return false
}

func (ef *Effects) computeConstParams() {
	// non-nil slice parameters of unexported functions
	type key struct {
		f *ssa.Function
		i int
	}
	all := map[key]bool{}
	for _, fn := range ef.fns {
		for _, b := range fn.Blocks {
			for _, ins := range b.Instrs {
				call, ok := ins.(ssa.CallInstruction)
				if !ok {
					continue
				}
				callee := call.Common().StaticCallee()
				if callee == nil || ef.sumKey(callee) == "" || (callee.Object() != nil && callee.Object().Exported()) {
					continue
				}
				for i, a := range call.Common().Args {
					if i >= len(callee.Params) {
						continue
					}
					if _, isSlice := callee.Params[i].Type().Underlying().(*types.Slice); !isSlice {
						continue
					}
					k := key{callee, i}
					if prev, seen := all[k]; seen {
						all[k] = prev && nonNilValue(a)
					} else {
						all[k] = nonNilValue(a)
					}
				}
			}
		}
	}
	for k, v := range all {
		if v {
			if ef.nonNilP[k.f] == nil {
				ef.nonNilP[k.f] = map[int]bool{}
			}
			ef.nonNilP[k.f][k.i] = true
		}
	}
	for round := 0; round < 4; round++ {
		seen := map[*ssa.Function]map[int][]*bool{}
		for _, fn := range ef.fns {
			for _, b := range fn.Blocks {
				for _, ins := range b.Instrs {
					call, ok := ins.(ssa.CallInstruction)
					if !ok {
						continue
					}
					callee := call.Common().StaticCallee()
					if callee == nil || ef.sumKey(callee) == "" {
						continue
					}
					args := call.Common().Args
					for i, a := range args {
						if i >= len(callee.Params) || !isBool(callee.Params[i].Type()) {
							continue
						}
						if seen[callee] == nil {
							seen[callee] = map[int][]*bool{}
						}
						seen[callee][i] = append(seen[callee][i], ef.constBool(a, fn))
					}
				}
			}
		}
		for callee, m := range seen {
			// exported functions may be called from outside with anything
			if callee.Object() != nil && callee.Object().Exported() {
				continue
			}
			for i, vals := range m {
				var c *bool
				ok := true
				for _, v := range vals {
					if v == nil || (c != nil && *c != *v) {
						ok = false
						break
					}
					c = v
				}
				if ok && c != nil {
					if ef.constP[callee] == nil {
						ef.constP[callee] = map[int]*bool{}
					}
					ef.constP[callee][i] = c
				}
			}
		}
	}
}

func (ef *Effects) sumKey(fn *ssa.Function) string {
	if fn.Object() == nil {
		return ""
	}
	f, ok := fn.Object().(*types.Func)
	if !ok {
		return ""
	}
	k := funcKey(f)
	if ef.fns[k] == fn {
		return k
	}
	return ""
}

// deadBlocks: blocks only reachable through an If on a parameter that is constant at every call site.
func (ef *Effects) deadBlocks(fn *ssa.Function) map[*ssa.BasicBlock]bool {
	dead := map[*ssa.BasicBlock]bool{}
	if len(fn.Blocks) == 0 {
		return dead
	}
	reach := map[*ssa.BasicBlock]bool{}
	var walk func(b *ssa.BasicBlock)
	walk = func(b *ssa.BasicBlock) {
		if reach[b] {
			return
		}
		reach[b] = true
		if len(b.Instrs) > 0 {
			if iff, ok := b.Instrs[len(b.Instrs)-1].(*ssa.If); ok {
				if c := ef.constBool(iff.Cond, fn); c != nil {
					if *c {
						walk(b.Succs[0])
					} else {
						walk(b.Succs[1])
					}
					return
				}
			}
		}
		for _, s := range b.Succs {
			walk(s)
		}
	}
	walk(fn.Blocks[0])
	for _, b := range fn.Blocks {
		if !reach[b] {
			dead[b] = true
		}
	}
	return dead
}

func (ef *Effects) roots(fn *ssa.Function, v ssa.Value, storedFresh *rootSet, depth int, seen map[ssa.Value]bool) *rootSet {
	r := newRoots()
	if v == nil || depth > 40 || seen[v] {
		return r
	}
	seen[v] = true
	switch x := v.(type) {
	case *ssa.Alloc, *ssa.MakeSlice, *ssa.MakeMap, *ssa.MakeChan, *ssa.MakeClosure:
		r.fresh = true
	case *ssa.Parameter:
		for i, p := range fn.Params {
			if p == x {
				r.params[i] = true
			}
		}
	case *ssa.Global:
		r.globals[x.Pkg.Pkg.Name()+"."+x.Name()] = true
	case *ssa.FieldAddr:
		r.add(ef.roots(fn, x.X, storedFresh, depth+1, seen))
	case *ssa.IndexAddr:
		r.add(ef.roots(fn, x.X, storedFresh, depth+1, seen))
	case *ssa.Slice:
		r.add(ef.roots(fn, x.X, storedFresh, depth+1, seen))
	case *ssa.Field:
		r.add(ef.roots(fn, x.X, storedFresh, depth+1, seen))
	case *ssa.Index:
		r.add(ef.roots(fn, x.X, storedFresh, depth+1, seen))
	case *ssa.Lookup:
		r.add(ef.roots(fn, x.X, storedFresh, depth+1, seen))
	case *ssa.UnOp:
		if x.Op == token.MUL {
			// a pointer/slice loaded from memory: reaches whatever that memory may hold
			in := ef.roots(fn, x.X, storedFresh, depth+1, seen)
			if in.fresh && storedFresh != nil {
				r.add(storedFresh)
				r.fresh = true
			}
			in2 := *in
			in2.fresh = false
			r.add(&in2)
		} else {
			r.add(ef.roots(fn, x.X, storedFresh, depth+1, seen))
		}
	case *ssa.Phi:
		for _, e := range x.Edges {
			r.add(ef.roots(fn, e, storedFresh, depth+1, seen))
		}
	case *ssa.ChangeType:
		r.add(ef.roots(fn, x.X, storedFresh, depth+1, seen))
	case *ssa.Convert:
		r.add(ef.roots(fn, x.X, storedFresh, depth+1, seen))
	case *ssa.ChangeInterface:
		r.add(ef.roots(fn, x.X, storedFresh, depth+1, seen))
	case *ssa.MakeInterface:
		r.add(ef.roots(fn, x.X, storedFresh, depth+1, seen))
	case *ssa.TypeAssert:
		r.add(ef.roots(fn, x.X, storedFresh, depth+1, seen))
	case *ssa.SliceToArrayPointer:
		r.add(ef.roots(fn, x.X, storedFresh, depth+1, seen))
	case *ssa.Extract:
		r.add(ef.roots(fn, x.Tuple, storedFresh, depth+1, seen))
	case *ssa.Const, *ssa.BinOp, *ssa.Function, *ssa.Builtin:
		// no memory
	case *ssa.Call:
		r.add(ef.callResultRoots(fn, x, storedFresh, depth, seen))
	default:
		r.unknown = append(r.unknown, fmt.Sprintf("%T", v))
	}
	return r
}

func pointerLike(t types.Type) bool {
	switch u := t.Underlying().(type) {
	case *types.Pointer, *types.Slice, *types.Map, *types.Interface, *types.Chan, *types.Signature:
		return true
	case *types.Struct:
		for i := 0; i < u.NumFields(); i++ {
			if pointerLike(u.Field(i).Type()) {
				return true
			}
		}
	case *types.Array:
		return pointerLike(u.Elem())
	}
	return false
}

func (ef *Effects) callResultRoots(fn *ssa.Function, call *ssa.Call, storedFresh *rootSet, depth int, seen map[ssa.Value]bool) *rootSet {
	r := newRoots()
	if !pointerLike(call.Type()) {
		if tup, ok := call.Type().(*types.Tuple); ok {
			any := false
			for i := 0; i < tup.Len(); i++ {
				if pointerLike(tup.At(i).Type()) {
					any = true
				}
			}
			if !any {
				return r
			}
		} else {
			return r
		}
	}
	com := call.Common()
	if b, ok := com.Value.(*ssa.Builtin); ok {
		switch b.Name() {
		case "append":
			r.fresh = true
			r.add(ef.roots(fn, com.Args[0], storedFresh, depth+1, seen))
		}
		return r
	}
	callee := com.StaticCallee()
	if callee != nil {
		if s, ok := ef.sum[callee]; ok {
			r.fresh = r.fresh || s.resultRoots.fresh
			for g := range s.resultRoots.globals {
				r.globals[g] = true
			}
			for pi := range s.resultRoots.params {
				if pi < len(com.Args) {
					r.add(ef.roots(fn, com.Args[pi], storedFresh, depth+1, seen))
				}
			}
			r.unknown = append(r.unknown, s.resultRoots.unknown...)
			return r
		}
	}
	// external function or interface method: the result may alias the arguments (or be fresh)
	r.fresh = true
	for _, a := range com.Args {
		if pointerLike(a.Type()) {
			r.add(ef.roots(fn, a, storedFresh, depth+1, seen))
		}
	}
	if com.IsInvoke() {
		r.add(ef.roots(fn, com.Value, storedFresh, depth+1, seen))
	}
	return r
}

func calleePkgPath(com *ssa.CallCommon) (string, string) {
	if com.IsInvoke() {
		m := com.Method
		if m.Pkg() != nil {
			return m.Pkg().Path(), m.Name()
		}
		return "builtin-iface", m.Name() // error.Error
	}
	if f := com.StaticCallee(); f != nil {
		if f.Pkg != nil {
			return f.Pkg.Pkg.Path(), f.Name()
		}
		if f.Object() != nil && f.Object().Pkg() != nil {
			return f.Object().Pkg().Path(), f.Name()
		}
	}
	return "", ""
}

// analyse recomputes fn's summary from its body and its callees' summaries; returns whether it grew.
func (ef *Effects) analyse(fn *ssa.Function) bool {
	s := ef.sum[fn]
	before := len(s.writesGlobals) + len(s.writesParams) + len(s.writesUnknown) + len(s.readsGlobals) + len(s.impure) + len(s.resultRoots.params) + len(s.resultRoots.globals) + len(s.resultRoots.unknown)
	if s.resultRoots.fresh {
		before++
	}
	// what pointer-like values get stored into fresh memory (flow-insensitive)
	storedFresh := newRoots()
	for pass := 0; pass < 2; pass++ {
		for _, b := range fn.Blocks {
			if s.dead[b] {
				continue
			}
			for _, ins := range b.Instrs {
				if st, ok := ins.(*ssa.Store); ok && pointerLike(st.Val.Type()) {
					ar := ef.roots(fn, st.Addr, storedFresh, 0, map[ssa.Value]bool{})
					if ar.fresh {
						vr := ef.roots(fn, st.Val, storedFresh, 0, map[ssa.Value]bool{})
						vr.fresh = false
						storedFresh.add(vr)
					}
				}
			}
		}
	}
	write := func(addr ssa.Value, site string) {
		r := ef.roots(fn, addr, storedFresh, 0, map[ssa.Value]bool{})
		for g := range r.globals {
			if _, ok := s.writesGlobals[g]; !ok {
				s.writesGlobals[g] = site
			}
		}
		for p := range r.params {
			if _, ok := s.writesParams[p]; !ok {
				s.writesParams[p] = site
			}
		}
		for _, u := range r.unknown {
			s.writesUnknown = appendUnique(s.writesUnknown, u+" at "+site)
		}
	}
	isInit := strings.HasPrefix(fn.Name(), "init")
	trusted := false
	if k := ef.sumKey(fn); k != "" {
		if con := ef.eng.cs.Funcs[k]; con != nil && con.Trusted != "" {
			trusted = true
		}
	}
	defer func() {
		if trusted {
			for r := range s.impure {
				delete(s.impure, r)
			}
		}
	}()
	for _, b := range fn.Blocks {
		if s.dead[b] {
			continue
		}
		for _, ins := range b.Instrs {
			site := ef.pos(ins.Pos())
			switch x := ins.(type) {
			case *ssa.Store:
				if !isInit {
					write(x.Addr, "store at "+site)
				}
			case *ssa.MapUpdate:
				write(x.Map, "map update at "+site)
			case *ssa.UnOp:
				if x.Op == token.MUL {
					r := ef.roots(fn, x.X, storedFresh, 0, map[ssa.Value]bool{})
					for g := range r.globals {
						s.readsGlobals[g] = true
					}
				}
			case *ssa.Go:
				s.impure["go statement at "+site] = true
			case *ssa.Select:
				s.impure["select at "+site] = true
			case *ssa.Send:
				s.impure["channel send at "+site] = true
			case *ssa.Range:
				if _, isMap := x.X.Type().Underlying().(*types.Map); isMap {
					s.impure["range over a map (iteration order) at "+site] = true
				}
			case *ssa.Convert:
				if b, ok := x.Type().Underlying().(*types.Basic); ok && b.Kind() == types.UnsafePointer {
					s.impure["unsafe.Pointer conversion at "+site] = true
				}
				if b, ok := x.X.Type().Underlying().(*types.Basic); ok && b.Kind() == types.UnsafePointer {
					s.impure["unsafe.Pointer conversion at "+site] = true
				}
			case *ssa.Return:
				for _, rv := range x.Results {
					if pointerLike(rv.Type()) {
						rr := ef.roots(fn, rv, storedFresh, 0, map[ssa.Value]bool{})
						if rr.fresh {
							rr.add(storedFresh) // memory reachable from the result includes what was stored into it
						}
						s.resultRoots.add(rr)
					}
				}
			}
			call, ok := ins.(ssa.CallInstruction)
			if !ok {
				continue
			}
			com := call.Common()
			if b, ok := com.Value.(*ssa.Builtin); ok {
				switch b.Name() {
				case "copy":
					write(com.Args[0], "copy at "+site)
				case "append":
					// append may write into spare capacity of its first argument
					write(com.Args[0], "append at "+site)
				case "delete":
					write(com.Args[0], "delete at "+site)
				}
				continue
			}
			callee := com.StaticCallee()
			if callee != nil {
				if cs, ok := ef.sum[callee]; ok {
					for g, w := range cs.writesGlobals {
						if _, ok := s.writesGlobals[g]; !ok {
							s.writesGlobals[g] = w + " (via " + callee.Name() + ")"
						}
					}
					for g := range cs.readsGlobals {
						s.readsGlobals[g] = true
					}
					for r := range cs.impure {
						s.impure[r] = true
					}
					for pi, w := range cs.writesParams {
						if pi < len(com.Args) {
							write(com.Args[pi], w+" (via "+callee.Name()+")")
						}
					}
					for _, u := range cs.writesUnknown {
						s.writesUnknown = appendUnique(s.writesUnknown, u)
					}
					continue
				}
			}
			pkgPath, name := calleePkgPath(com)
			switch {
			case purePkgs[pkgPath] || pkgPath == "builtin-iface":
				// deterministic; may write memory reachable from its pointer-like arguments (and receiver)
				if pkgPath == "reflect" {
					break
				}
				writesArgs := true
				if pkgPath == "encoding/hex" || pkgPath == "strings" || pkgPath == "errors" || pkgPath == "math" || (pkgPath == "fmt" && name != "Fprint" && name != "Fprintf") {
					writesArgs = false
				}
				if pkgPath == "golang.org/x/crypto/sha3" && (name == "Write" || name == "NewShake128" || name == "NewShake256") {
					writesArgs = name == "Write" // Write mutates the receiver only
				}
				if writesArgs {
					if com.IsInvoke() {
						write(com.Value, "method "+name+" at "+site)
						if name == "Read" || name == "Sum" {
							for _, a := range com.Args {
								if pointerLike(a.Type()) {
									write(a, name+" at "+site)
								}
							}
						}
					} else {
						for i, a := range com.Args {
							if !pointerLike(a.Type()) {
								continue
							}
							// data arguments of hashing functions are only read
							if (name == "ShakeSum256" || name == "ShakeSum128") && i == 1 {
								continue
							}
							if name == "Write" && i > 0 {
								continue
							}
							write(a, pkgPath+"."+name+" at "+site)
						}
					}
				}
			case pkgPath == "reflect" && name == "DeepEqual":
			case pkgPath == "":
				s.impure["call of a function value at "+site] = true
			default:
				s.impure[fmt.Sprintf("call to %s.%s at %s", pkgPath, name, site)] = true
			}
		}
	}
	after := len(s.writesGlobals) + len(s.writesParams) + len(s.writesUnknown) + len(s.readsGlobals) + len(s.impure) + len(s.resultRoots.params) + len(s.resultRoots.globals) + len(s.resultRoots.unknown)
	if s.resultRoots.fresh {
		after++
	}
	return after != before
}

func appendUnique(xs []string, x string) []string {
	for _, y := range xs {
		if y == x {
			return xs
		}
	}
	return append(xs, x)
}

// ---- obligations ----------------------------------------------------------------------------------------------------

type EffOb struct {
	Name   string
	OK     bool
	Detail string
}

func (ef *Effects) summaryOf(key string) *fnSummary {
	fn, ok := ef.fns[key]
	if !ok {
		return nil
	}
	return ef.sum[fn]
}

// noGlobalWrites: E1 for one function.
func (ef *Effects) obNoGlobalWrites(key string) EffOb {
	s := ef.summaryOf(key)
	if s == nil {
		return EffOb{"no-global-writes " + key, false, "function not found in SSA"}
	}
	if len(s.writesGlobals) == 0 && len(s.writesUnknown) == 0 {
		return EffOb{"no-global-writes " + key, true, ""}
	}
	var d []string
	for g, w := range s.writesGlobals {
		d = append(d, "writes "+g+": "+w)
	}
	d = append(d, s.writesUnknown...)
	sort.Strings(d)
	return EffOb{"no-global-writes " + key, false, strings.Join(d, "; ")}
}

// obWritesOnly: the function writes caller-visible memory only through the allowed parameter indices.
func (ef *Effects) obWritesOnly(key string, allowed map[int]bool) EffOb {
	s := ef.summaryOf(key)
	name := "writes-only-allowed-params " + key
	if s == nil {
		return EffOb{name, false, "function not found in SSA"}
	}
	var d []string
	for p, w := range s.writesParams {
		if !allowed[p] {
			pn := fmt.Sprintf("#%d", p)
			if p < len(s.fn.Params) {
				pn = s.fn.Params[p].Name()
			}
			d = append(d, fmt.Sprintf("writes memory reachable from parameter %s: %s", pn, w))
		}
	}
	d = append(d, s.writesUnknown...)
	sort.Strings(d)
	return EffOb{name, len(d) == 0, strings.Join(d, "; ")}
}

// obPure: result and final state are a function of the arguments.
func (ef *Effects) obPure(key string) EffOb {
	s := ef.summaryOf(key)
	name := "pure " + key
	if s == nil {
		return EffOb{name, false, "function not found in SSA"}
	}
	var d []string
	for r := range s.impure {
		d = append(d, r)
	}
	for g := range s.readsGlobals {
		if ef.mutableGlobals[g] {
			d = append(d, "reads mutable package-level variable "+g)
		}
	}
	sort.Strings(d)
	return EffOb{name, len(d) == 0, strings.Join(d, "; ")}
}

// obFreshResult: pointer-like results reach only memory allocated by the call itself.
func (ef *Effects) obFreshResult(key string) EffOb {
	s := ef.summaryOf(key)
	name := "fresh-result " + key
	if s == nil {
		return EffOb{name, false, "function not found in SSA"}
	}
	var d []string
	for p := range s.resultRoots.params {
		pn := fmt.Sprintf("#%d", p)
		if p < len(s.fn.Params) {
			pn = s.fn.Params[p].Name()
		}
		d = append(d, "result may reach memory of parameter "+pn)
	}
	for g := range s.resultRoots.globals {
		d = append(d, "result may reach package-level variable "+g)
	}
	d = append(d, s.resultRoots.unknown...)
	sort.Strings(d)
	return EffOb{name, len(d) == 0, strings.Join(d, "; ")}
}

// obReadsOnly: parameter `pname` of key is used only through p[lo:hi] windows (a `reads p[lo:hi]` clause):
// every use is a slice expression with constant bounds inside the window, or the parameter is passed on to a
// repository function whose own contract has a `reads` clause inside the window for that position.
func (ef *Effects) obReadsOnly(key, pname string, lo, hi int64) EffOb {
	name := fmt.Sprintf("reads-only %s %s[%d:%d]", key, pname, lo, hi)
	fn, ok := ef.fns[key]
	if !ok {
		return EffOb{name, false, "function not found in SSA"}
	}
	var par *ssa.Parameter
	for _, p := range fn.Params {
		if p.Name() == pname {
			par = p
		}
	}
	if par == nil {
		return EffOb{name, false, "parameter not found"}
	}
	constInt := func(v ssa.Value) (int64, bool) {
		if v == nil {
			return 0, false
		}
		if c, ok := v.(*ssa.Const); ok && c.Value != nil {
			return c.Int64(), true
		}
		return 0, false
	}
	var bad []string
	for _, ref := range *par.Referrers() {
		switch x := ref.(type) {
		case *ssa.Slice:
			l := int64(0)
			if x.Low != nil {
				v, ok := constInt(x.Low)
				if !ok {
					bad = append(bad, "slice with non-constant low bound at "+ef.pos(x.Pos()))
					continue
				}
				l = v
			}
			h, ok := constInt(x.High)
			if !ok || l < lo || h > hi {
				bad = append(bad, "slice outside the declared window at "+ef.pos(x.Pos()))
			}
		case ssa.CallInstruction:
			com := x.Common()
			callee := com.StaticCallee()
			okCall := false
			if callee != nil {
				if ck := ef.sumKey(callee); ck != "" {
					if con := ef.eng.cs.Funcs[ck]; con != nil && con.Reads != nil {
						for i, a := range com.Args {
							if a == par && i < len(callee.Params) {
								if rd, has := con.Reads[callee.Params[i].Name()]; has && rd[0] >= lo && rd[1] <= hi {
									okCall = true
								}
							}
						}
					}
				}
			}
			if !okCall {
				bad = append(bad, "passed to a call without a matching reads clause at "+ef.pos(x.Pos()))
			}
		case *ssa.DebugRef:
		default:
			bad = append(bad, fmt.Sprintf("used by %T at %s", ref, ef.pos(ref.Pos())))
		}
	}
	sort.Strings(bad)
	return EffOb{name, len(bad) == 0, strings.Join(bad, "; ")}
}
