package main

// Symbolic execution of the typed Go AST: expressions.
// Integer semantics (see DESIGN.md section 2.3): every Go integer is an SMT Int constrained to the
// range of its type.  8/16/32-bit arithmetic is wrapped exactly (mod 2^w); 64-bit arithmetic
// SIGNED 64-bit arithmetic (int, int64) generates a no-overflow OBLIGATION and then uses the exact
// result, so a signed 64-bit overflow anywhere in verified code fails the check instead of being
// ignored; unsigned 64-bit arithmetic wraps exactly (polyChallenge relies on 1-2*1 wrapping in uint64).

import (
	"bytes"
	"fmt"
	"go/ast"
	"go/printer"
	"go/constant"
	"go/token"
	"go/types"
	"math/big"
	"strings"
)

type Obligation struct {
	Name      string
	Func      string
	Kind      string
	Hyps      []*Term
	Goal      *Term
	ExpectSat bool // vacuity guard: the hypotheses (and goal) must be satisfiable
	Pos       string
	Variant   string
	Group     string // reach guards of one function: any member satisfiable suffices
	HideSpec  []string // lemma `uses -spec.f`
	Retried   bool     // undecided at the first attempt, tried again alone with a longer limit
	Reveal    []string // prelude pseudo-symbols whose `;@ needs` axioms are shipped with this VC (lemma `uses spec.X`)
	// result
	Status  string // unsat sat unknown timeout error
	Solver  string
	TimeS   float64
	Model   string
	SMTFile string
	Inputs  map[string]*Term // entry-state symbols by parameter path (for replay)
	rp      *replayInfo      // what the replayer needs: parameters, entry state, and (at returns) results and final state
}

type Flow struct {
	st      *State
	kind    int
	node    ast.Node // goto flows: the branch statement
	label   string
	results []Val
	msg     string
	pos     string
	retPos  token.Pos
}

const (
	fNormal = iota
	fBreak
	fContinue
	fReturn
	fPanic
	fGoto
	fBlockDone
)

type FCtx struct {
	ghosts   map[string]*types.Var // `called("pkg.F", k)`: ghost booleans, true once the k-th call site of pkg.F has been executed
	eng      *Engine
	fi       *FuncInfo
	con      *Contract
	info     *types.Info
	pkg      *types.Package
	prop     string
	obls     []*Obligation
	fresh    int
	cellSeq  int
	entry    *State
	dry      bool
	side     []Flow // flows split off while evaluating expressions (callee panics)
	variant  string
	params   map[string]types.Object
	results  []types.Object
	resNames []string
	entryVal map[string]Val
	inlineDepth int
	curFunc  string
	notes    map[string]bool
	nooverflow bool
	globals  map[types.Object]int
	oblSeen  map[string]int
	pow2Of   map[*Term]*Term // term -> s when the term is 1<<s (variable s)
	maskOf   map[*Term]*Term // term -> s when the term is (1<<s)-1
	inputs   map[string]*Term
	curSig   *types.Signature
	curFI    *FuncInfo
	curCon   *Contract
	rpBase   *replayInfo
	rpCur    *replayInfo
	rangeCtr map[ast.Node]types.Object
	lastDryFields map[int]map[int]bool
	exitApplied   map[int]int
}

func (c *FCtx) oblige(st *State, kind, name string, goal *Term, pos string) {
	if c.dry || st.dead {
		return
	}
	if goal.IsTrue() {
		return
	}
	full := c.curFunc + "/" + name
	c.oblSeen[full]++
	if n := c.oblSeen[full]; n > 1 {
		full = fmt.Sprintf("%s#%d", full, n)
	}
	o := &Obligation{Name: full, Func: c.fi.Key, Kind: kind, Hyps: append([]*Term(nil), st.pc...), Goal: stripVariants(goal), Pos: pos, Variant: c.variant, Inputs: c.inputs}
	if c.rpCur != nil {
		o.rp = c.rpCur
	} else {
		o.rp = c.rpBase
	}
	c.obls = append(c.obls, o)
}

func (c *FCtx) note(s string) {
	c.notes[s] = true
}

// ---- places ---------------------------------------------------------------------------------------

type Place struct {
	Cell int
	Path []Sel
	Typ  types.Type
}

func (c *FCtx) project(v Val, path []Sel) Val {
	for _, s := range path {
		switch x := v.(type) {
		case TV:
			if s.IsIdx {
				fail("index selector on struct value")
			}
			v = x.Fs[s.Field]
		case AV:
			if !s.IsIdx {
				fail("field selector on array value")
			}
			v = c.termToVal(Select(x.T, s.Idx), x.Typ.Underlying().(*types.Array).Elem())
		case MV:
			if !s.IsIdx {
				fail("field selector on memory")
			}
			v = c.termToVal(Select(x.T, s.Idx), x.Elem)
		default:
			fail("project through %T", v)
		}
	}
	return v
}

func (c *FCtx) update(v Val, path []Sel, nv Val) Val {
	if len(path) == 0 {
		return nv
	}
	s := path[0]
	switch x := v.(type) {
	case TV:
		fs := append([]Val(nil), x.Fs...)
		fs[s.Field] = c.update(fs[s.Field], path[1:], nv)
		return TV{fs, x.Typ}
	case AV:
		et := x.Typ.Underlying().(*types.Array).Elem()
		inner := c.update(c.termToVal(Select(x.T, s.Idx), et), path[1:], nv)
		return AV{Store(x.T, s.Idx, c.valToTerm(inner)), x.Typ}
	case MV:
		inner := c.update(c.termToVal(Select(x.T, s.Idx), x.Elem), path[1:], nv)
		return MV{Store(x.T, s.Idx, c.valToTerm(inner)), x.Elem}
	}
	fail("update through %T", v)
	return nil
}

func (c *FCtx) readPlace(st *State, p Place) Val {
	cv, ok := st.cells[p.Cell]
	if !ok {
		fail("read of unknown cell %d", p.Cell)
	}
	v := c.project(cv, p.Path)
	if sv, ok := v.(SV); ok && len(p.Path) > 0 && !sv.T.IsNum() {
		st.assume(typeFacts(sv.T, sv.Typ))
	}
	return v
}

func (c *FCtx) writePlace(st *State, p Place, v Val) {
	cv, ok := st.cells[p.Cell]
	if !ok {
		fail("write of unknown cell %d", p.Cell)
	}
	for _, gid := range c.globals {
		if gid == p.Cell {
			fail("write to a package-level variable")
		}
	}
	st.cells[p.Cell] = c.update(cv, p.Path, v)
	st.written[p.Cell] = true
	if st.wfields == nil {
		st.wfields = map[int]map[int]bool{}
	}
	if st.wfields[p.Cell] == nil {
		st.wfields[p.Cell] = map[int]bool{}
	}
	if len(p.Path) > 0 && !p.Path[0].IsIdx {
		st.wfields[p.Cell][p.Path[0].Field] = true
	} else {
		st.wfields[p.Cell][-1] = true
	}
}

func (c *FCtx) varCell(st *State, obj types.Object) int {
	if id, ok := st.vars[obj]; ok {
		return id
	}
	// package-level variable
	if v, ok := obj.(*types.Var); ok && v.Parent() == v.Pkg().Scope() {
		if id, ok := c.globals[obj]; ok {
			if _, ok := st.cells[id]; ok {
				return id
			}
		}
		val := c.globalVal(st, v)
		id := c.newCell(st, val)
		c.globals[obj] = id
		c.entry.cells[id] = val
		return id
	}
	fail("variable %s not in scope of the symbolic state", obj.Name())
	return 0
}

// globalVal models a package-level variable.  Only read-only tables occur in this repository
// (dilithium.zetas, qrl.WordList); a write to a global is reported as unsupported (and C15's
// effects analysis reports it as a violation of its own).
func (c *FCtx) globalVal(st *State, v *types.Var) Val {
	name := "g$" + v.Pkg().Name() + "." + v.Name()
	t := v.Type()
	if at, ok := t.Underlying().(*types.Array); ok {
		if isString(at.Elem()) {
			// table of strings: abstract (Array Int Str); facts come from the spec prelude (wordlist table facts)
			c.note("global table " + v.Pkg().Name() + "." + v.Name() + " modelled as an abstract array of strings; its facts (4096 pairwise distinct, non-empty, blank-free words) are decided exhaustively by the table back end")
			if v.Pkg().Name() == "qrl" && v.Name() == "WordList" {
				return AV{Sym("wordlist", SArr("Str")), t}
			}
			return AV{Sym(name, SArr("Str")), t}
		}
		arr := Sym(name, c.sortOf(t))
		st.assume(c.arrayTypeInv(arr, t))
		// facts read off the initialiser in the working tree (the table is never written: a store to a
		// package-level variable is rejected by writePlace): all entries when small, else the value range
		if vals := c.eng.globalInit(v); vals != nil && int64(len(vals)) == at.Len() {
			if len(vals) <= 16 {
				for i, n := range vals {
					st.assume(Eq(Select(arr, Num(int64(i))), NumB(n)))
				}
			} else {
				lo, hi := vals[0], vals[0]
				for _, n := range vals {
					if n.Cmp(lo) < 0 {
						lo = n
					}
					if n.Cmp(hi) > 0 {
						hi = n
					}
				}
				q := Sym(c.freshName("q"), SInt)
				st.assume(Forall([]*Term{q}, Implies(And(Le(Num(0), q), Lt(q, Num(at.Len()))), And(Le(NumB(lo), Select(arr, q)), Le(Select(arr, q), NumB(hi)))), Select(arr, q)))
				c.note(fmt.Sprintf("table fact read from the initialiser of %s.%s: every entry in [%s, %s]", v.Pkg().Name(), v.Name(), lo, hi))
			}
		}
		return AV{arr, t}
	}
	return c.freshVal(st, name, t)
}

func (e *Engine) globalInit(v *types.Var) []*big.Int {
	for _, p := range e.pkgs {
		if p.Types != v.Pkg() {
			continue
		}
		for _, f := range p.Syntax {
			for _, d := range f.Decls {
				gd, ok := d.(*ast.GenDecl)
				if !ok || gd.Tok != token.VAR {
					continue
				}
				for _, s := range gd.Specs {
					vs := s.(*ast.ValueSpec)
					for i, n := range vs.Names {
						if p.TypesInfo.Defs[n] != v || i >= len(vs.Values) {
							continue
						}
						cl, ok := vs.Values[i].(*ast.CompositeLit)
						if !ok {
							return nil
						}
						var out []*big.Int
						for _, el := range cl.Elts {
							tv := p.TypesInfo.Types[el]
							if tv.Value == nil || tv.Value.Kind() != constant.Int {
								return nil
							}
							bi, _ := new(big.Int).SetString(tv.Value.ExactString(), 10)
							out = append(out, bi)
						}
						return out
					}
				}
			}
		}
	}
	return nil
}

func (c *FCtx) derefPtr(st *State, pv PV, e ast.Node) Place {
	if !pv.IsNil.IsFalse() {
		c.oblige(st, "safety", "nil-deref "+c.exprStr(e), Not(pv.IsNil), c.eng.pos(e))
		st.assume(Not(pv.IsNil))
	}
	pt := pv.Typ.Underlying().(*types.Pointer)
	return Place{Cell: pv.Cell, Path: pv.Path, Typ: pt.Elem()}
}

func (c *FCtx) exprStr(e ast.Node) string {
	var sb strings.Builder
	if ex, ok := e.(ast.Expr); ok {
		sb.WriteString(types.ExprString(ex))
	} else {
		var buf bytes.Buffer
		if err := printer.Fprint(&buf, c.eng.fset, e); err == nil {
			sb.WriteString(strings.Join(strings.Fields(buf.String()), " "))
		} else {
			sb.WriteString(fmt.Sprintf("%T", e))
		}
	}
	s := sb.String()
	if len(s) > 80 {
		s = s[:77] + "..."
	}
	return s
}

func appendSel(p []Sel, s Sel) []Sel {
	n := make([]Sel, len(p)+1)
	copy(n, p)
	n[len(p)] = s
	return n
}

// resolvePlace returns the place denoted by an addressable expression; ok=false when e is not a place.
func (c *FCtx) resolvePlace(st *State, e ast.Expr) (Place, bool) {
	switch x := e.(type) {
	case *ast.ParenExpr:
		return c.resolvePlace(st, x.X)
	case *ast.Ident:
		obj := c.info.ObjectOf(x)
		if v, ok := obj.(*types.Var); ok {
			return Place{Cell: c.varCell(st, v), Typ: v.Type()}, true
		}
		return Place{}, false
	case *ast.StarExpr:
		v := c.eval(st, x.X)
		pv, ok := v.(PV)
		if !ok {
			fail("dereference of non-pointer value")
		}
		return c.derefPtr(st, pv, x), true
	case *ast.SelectorExpr:
		sel, ok := c.info.Selections[x]
		if !ok {
			// qualified identifier pkg.Var
			obj := c.info.ObjectOf(x.Sel)
			if v, ok := obj.(*types.Var); ok {
				return Place{Cell: c.varCell(st, v), Typ: v.Type()}, true
			}
			return Place{}, false
		}
		if sel.Kind() != types.FieldVal {
			return Place{}, false
		}
		if len(sel.Index()) != 1 {
			fail("embedded field selection %s", c.exprStr(e))
		}
		bt := c.info.TypeOf(x.X)
		var base Place
		if _, isPtr := bt.Underlying().(*types.Pointer); isPtr {
			pv, ok := c.eval(st, x.X).(PV)
			if !ok {
				fail("selector base is not a pointer value")
			}
			base = c.derefPtr(st, pv, x.X)
		} else {
			b, ok := c.resolvePlace(st, x.X)
			if !ok {
				return Place{}, false
			}
			base = b
		}
		if c.isOpaque(base.Typ) {
			fail("field access %s into opaque type %s", c.exprStr(e), base.Typ)
		}
		return Place{Cell: base.Cell, Path: appendSel(base.Path, Sel{Field: sel.Index()[0]}), Typ: sel.Type()}, true
	case *ast.IndexExpr:
		bt := c.info.TypeOf(x.X)
		switch u := bt.Underlying().(type) {
		case *types.Array:
			base, ok := c.resolvePlace(st, x.X)
			if !ok {
				return Place{}, false
			}
			idx := c.evalIndex(st, x.Index)
			c.oblige(st, "safety", "index "+c.exprStr(e), And(Le(Num(0), idx), Lt(idx, Num(u.Len()))), c.eng.pos(e))
			st.assume(And(Le(Num(0), idx), Lt(idx, Num(u.Len()))))
			return Place{Cell: base.Cell, Path: appendSel(base.Path, Sel{IsIdx: true, Idx: idx}), Typ: u.Elem()}, true
		case *types.Pointer:
			at, ok := u.Elem().Underlying().(*types.Array)
			if !ok {
				fail("index of pointer to non-array")
			}
			pv := c.eval(st, x.X).(PV)
			base := c.derefPtr(st, pv, x.X)
			idx := c.evalIndex(st, x.Index)
			c.oblige(st, "safety", "index "+c.exprStr(e), And(Le(Num(0), idx), Lt(idx, Num(at.Len()))), c.eng.pos(e))
			st.assume(And(Le(Num(0), idx), Lt(idx, Num(at.Len()))))
			return Place{Cell: base.Cell, Path: appendSel(base.Path, Sel{IsIdx: true, Idx: idx}), Typ: at.Elem()}, true
		case *types.Slice:
			lv := c.eval(st, x.X).(LV)
			idx := c.evalIndex(st, x.Index)
			c.oblige(st, "safety", "index "+c.exprStr(e), And(Le(Num(0), idx), Lt(idx, lv.Len)), c.eng.pos(e))
			st.assume(And(Le(Num(0), idx), Lt(idx, lv.Len)))
			return Place{Cell: lv.Cell, Path: appendSel(lvPath(lv), Sel{IsIdx: true, Idx: Add(lv.Off, idx)}), Typ: u.Elem()}, true
		case *types.Basic:
			if isString(bt) {
				lv := c.eval(st, x.X).(LV)
				idx := c.evalIndex(st, x.Index)
				c.oblige(st, "safety", "index "+c.exprStr(e), And(Le(Num(0), idx), Lt(idx, lv.Len)), c.eng.pos(e))
				st.assume(And(Le(Num(0), idx), Lt(idx, lv.Len)))
				return Place{Cell: lv.Cell, Path: appendSel(lvPath(lv), Sel{IsIdx: true, Idx: Add(lv.Off, idx)}), Typ: types.Typ[types.Uint8]}, true
			}
		}
		return Place{}, false
	}
	return Place{}, false
}

func lvPath(lv LV) []Sel { return lv.Path }

func (c *FCtx) evalIndex(st *State, e ast.Expr) *Term {
	v := c.eval(st, e)
	sv, ok := v.(SV)
	if !ok {
		fail("non-scalar index")
	}
	return sv.T
}

// ---- expressions -------------------------------------------------------------------------------------

func constToTerm(v constant.Value, t types.Type) (*Term, bool) {
	switch v.Kind() {
	case constant.Int:
		bi, ok := new(big.Int).SetString(v.ExactString(), 10)
		if !ok {
			return nil, false
		}
		return NumB(bi), true
	case constant.Bool:
		if constant.BoolVal(v) {
			return True(), true
		}
		return False(), true
	case constant.Float:
		// integral float constants used as integers
		if iv := constant.ToInt(v); iv.Kind() == constant.Int {
			bi, _ := new(big.Int).SetString(iv.ExactString(), 10)
			return NumB(bi), true
		}
	}
	return nil, false
}

func (c *FCtx) stringConst(st *State, s string, t types.Type) Val {
	arr := ConstArr(SArr(SInt), Num(0))
	for i := 0; i < len(s); i++ {
		arr = Store(arr, Num(int64(i)), Num(int64(s[i])))
	}
	cell := c.newCell(st, MV{arr, types.Typ[types.Uint8]})
	n := Num(int64(len(s)))
	var abs *Term
	switch s {
	case "":
		abs = Sym("str_empty", "Str")
	case " ":
		abs = Sym("str_space", "Str")
	}
	return LV{Cell: cell, Off: Num(0), Len: n, Cap: n, Elem: types.Typ[types.Uint8], IsNil: False(), Str: true, Typ: t, Abs: abs}
}

// strOf: a Go string value as one abstract Str term.
func (c *FCtx) strOf(st *State, v Val) *Term {
	switch x := v.(type) {
	case LV:
		if x.Abs != nil {
			return x.Abs
		}
		return App("strbytes", "Str", subBytes(c.memTerm(st, x), x.Off, x.Len), x.Len)
	case SV:
		if x.T.S == "Str" {
			return x.T
		}
	case TXV:
		return x.T
	}
	fail("value of kind %T is not a string", v)
	return nil
}

func (c *FCtx) eval(st *State, e ast.Expr) Val {
	if tv, ok := c.info.Types[e]; ok && tv.Value != nil {
		if tm, ok := constToTerm(tv.Value, tv.Type); ok {
			return SV{tm, tv.Type}
		}
		if tv.Value.Kind() == constant.String {
			return c.stringConst(st, constant.StringVal(tv.Value), tv.Type)
		}
	}
	switch x := e.(type) {
	case *ast.ParenExpr:
		return c.eval(st, x.X)
	case *ast.Ident:
		if x.Name == "nil" {
			t := c.info.TypeOf(x)
			_ = t
			return nilVal{}
		}
		obj := c.info.ObjectOf(x)
		switch o := obj.(type) {
		case *types.Var:
			return c.readPlace(st, Place{Cell: c.varCell(st, o), Typ: o.Type()})
		case *types.Nil:
			return nilVal{}
		}
		fail("identifier %s", x.Name)
	case *ast.BasicLit:
		fail("non-constant literal %s", x.Value)
	case *ast.StarExpr, *ast.IndexExpr:
		if ix, ok := e.(*ast.IndexExpr); ok {
			if _, isMap := c.info.TypeOf(ix.X).Underlying().(*types.Map); isMap {
				vs := c.evalMapIndex(st, ix)
				return vs[0]
			}
		}
		p, ok := c.resolvePlace(st, e)
		if !ok {
			// index of a non-addressable array value (e.g. call result)
			if ix, ok := e.(*ast.IndexExpr); ok {
				base := c.eval(st, ix.X)
				if av, ok := base.(AV); ok {
					idx := c.evalIndex(st, ix.Index)
					n := av.Typ.Underlying().(*types.Array).Len()
					c.oblige(st, "safety", "index "+c.exprStr(e), And(Le(Num(0), idx), Lt(idx, Num(n))), c.eng.pos(e))
					v := c.termToVal(Select(av.T, idx), av.Typ.Underlying().(*types.Array).Elem())
					if sv, ok := v.(SV); ok {
						st.assume(typeFacts(sv.T, sv.Typ))
					}
					return v
				}
			}
			fail("cannot evaluate %s", c.exprStr(e))
		}
		return c.readPlace(st, p)
	case *ast.SelectorExpr:
		if p, ok := c.resolvePlace(st, e); ok {
			return c.readPlace(st, p)
		}
		// field of a non-addressable struct value
		if sel, ok := c.info.Selections[x]; ok && sel.Kind() == types.FieldVal {
			base := c.eval(st, x.X)
			if tv, ok := base.(TV); ok {
				return tv.Fs[sel.Index()[0]]
			}
		}
		fail("selector %s", c.exprStr(e))
	case *ast.UnaryExpr:
		return c.evalUnary(st, x)
	case *ast.BinaryExpr:
		return c.evalBinary(st, x)
	case *ast.CallExpr:
		vs := c.evalCall(st, x)
		if len(vs) != 1 {
			fail("call %s used as single value yields %d values", c.exprStr(e), len(vs))
		}
		return vs[0]
	case *ast.SliceExpr:
		return c.evalSliceExpr(st, x)
	case *ast.CompositeLit:
		return c.evalCompositeLit(st, x)
	case *ast.TypeAssertExpr:
		fail("type assertion")
	case *ast.FuncLit:
		fail("function literal")
	}
	fail("expression form %T (%s)", e, c.exprStr(e))
	return nil
}

type nilVal struct{}

func (c *FCtx) coerceNil(st *State, v Val, t types.Type) Val {
	if _, ok := v.(nilVal); !ok {
		return v
	}
	return c.zeroVal(st, t)
}

func (c *FCtx) evalUnary(st *State, x *ast.UnaryExpr) Val {
	switch x.Op {
	case token.AND:
		// &place or &CompositeLit
		if cl, ok := x.X.(*ast.CompositeLit); ok {
			v := c.evalCompositeLit(st, cl)
			cell := c.newCell(st, v)
			return PV{Cell: cell, IsNil: False(), Typ: c.info.TypeOf(x)}
		}
		p, ok := c.resolvePlace(st, x.X)
		if !ok {
			fail("address of non-place %s", c.exprStr(x.X))
		}
		return PV{Cell: p.Cell, Path: p.Path, IsNil: False(), Typ: c.info.TypeOf(x)}
	case token.NOT:
		v := c.eval(st, x.X).(SV)
		return SV{Not(v.T), v.Typ}
	case token.SUB:
		v := c.eval(st, x.X).(SV)
		return SV{c.arith(st, token.SUB, Num(0), v.T, c.info.TypeOf(x), x, x.X, x.X), c.info.TypeOf(x)}
	case token.ADD:
		return c.eval(st, x.X)
	case token.XOR:
		v := c.eval(st, x.X).(SV)
		t := c.info.TypeOf(x)
		k, _ := intKindOf(t)
		// ^x = -x-1 in two's complement; for unsigned types 2^w-1-x
		if k.signed {
			return SV{Sub(Neg(v.T), Num(1)), t}
		}
		return SV{Sub(NumB(k.max()), v.T), t}
	}
	fail("unary operator %s", x.Op)
	return nil
}

func (c *FCtx) evalBinary(st *State, x *ast.BinaryExpr) Val {
	t := c.info.TypeOf(x)
	switch x.Op {
	case token.LAND:
		l := c.eval(st, x.X).(SV)
		// right operand is only evaluated when l holds: evaluate it in a guarded sub-state
		sub := st.clone()
		sub.assume(l.T)
		r := c.evalGuarded(st, sub, x.Y, l.T).(SV)
		return SV{And(l.T, r.T), t}
	case token.LOR:
		l := c.eval(st, x.X).(SV)
		sub := st.clone()
		sub.assume(Not(l.T))
		r := c.evalGuarded(st, sub, x.Y, Not(l.T)).(SV)
		return SV{Or(l.T, r.T), t}
	}
	lv := c.eval(st, x.X)
	rv := c.eval(st, x.Y)
	switch x.Op {
	case token.EQL, token.NEQ:
		eq := c.valEq(st, lv, rv, c.info.TypeOf(x.X), c.info.TypeOf(x.Y))
		if x.Op == token.NEQ {
			eq = Not(eq)
		}
		return SV{eq, t}
	case token.LSS, token.LEQ, token.GTR, token.GEQ:
		l, r := lv.(SV), rv.(SV)
		var tm *Term
		switch x.Op {
		case token.LSS:
			tm = Lt(l.T, r.T)
		case token.LEQ:
			tm = Le(l.T, r.T)
		case token.GTR:
			tm = Gt(l.T, r.T)
		default:
			tm = Ge(l.T, r.T)
		}
		return SV{tm, t}
	}
	l, ok1 := lv.(SV)
	r, ok2 := rv.(SV)
	if !ok1 || !ok2 {
		if isString(t) && x.Op == token.ADD {
			return c.strConcat(st, lv.(LV), rv.(LV), t)
		}
		fail("binary %s on non-scalars", x.Op)
	}
	if x.Op == token.SHL || x.Op == token.SHR {
		return SV{c.shift(st, x.Op, l.T, r.T, t, c.info.TypeOf(x.Y), x), t}
	}
	return SV{c.arith(st, x.Op, l.T, r.T, t, x, x.X, x.Y), t}
}

// evalGuarded evaluates e in sub (a guarded copy of st); obligations are generated under the guard,
// and facts learned are added to st as implications.  Memory effects of && / || right operands are not
// supported (none occur in this code base).
func (c *FCtx) evalGuarded(st, sub *State, e ast.Expr, guard *Term) Val {
	n := len(sub.pc)
	v := c.eval(sub, e)
	for _, h := range sub.pc[n:] {
		st.assume(Implies(guard, h))
	}
	for k := range sub.written {
		if _, existed := st.cells[k]; existed && !st.written[k] {
			fail("side effect in right operand of && / ||")
		}
	}
	// cells allocated while evaluating (string constants etc.)
	for k, cv := range sub.cells {
		if _, ok := st.cells[k]; !ok {
			st.cells[k] = cv
		}
	}
	return v
}

func (c *FCtx) valEq(st *State, a, b Val, ta, tb types.Type) *Term {
	if _, ok := a.(nilVal); ok {
		a, b = b, a
		ta = tb
	}
	if _, ok := b.(nilVal); ok {
		switch x := a.(type) {
		case LV:
			return x.IsNil
		case PV:
			return x.IsNil
		case SV:
			if x.T.S == SBool { // error value: Bool = non-nil
				return Not(x.T)
			}
			fail("comparison of abstract interface value with nil")
		case FV:
			return False()
		case nilVal:
			return True()
		}
		fail("nil comparison on %T", a)
	}
	switch x := a.(type) {
	case SV:
		y := b.(SV)
		return Eq(x.T, y.T)
	case AV:
		y := b.(AV)
		// Go array equality is element-wise over [0,N): arrays in the model may differ outside that range
		n := x.Typ.Underlying().(*types.Array).Len()
		return c.arrEqRange(x.T, y.T, n, x.Typ.Underlying().(*types.Array).Elem())
	case TV:
		y := b.(TV)
		var cs []*Term
		st2 := x.Typ.Underlying().(*types.Struct)
		for i := range x.Fs {
			cs = append(cs, c.valEq(st, x.Fs[i], y.Fs[i], st2.Field(i).Type(), st2.Field(i).Type()))
		}
		return And(cs...)
	case LV:
		y, ok := b.(LV)
		if ok && x.Str && y.Str {
			return c.strEq(st, x, y)
		}
	}
	fail("equality on %T", a)
	return nil
}

func (c *FCtx) arrEqRange(a, b *Term, n int64, elem types.Type) *Term {
	if sameTerm(a, b) {
		return True()
	}
	if n <= 4 {
		var cs []*Term
		for i := int64(0); i < n; i++ {
			cs = append(cs, c.elemEq(Select(a, Num(i)), Select(b, Num(i)), elem))
		}
		return And(cs...)
	}
	q := Sym(c.freshName("q"), SInt)
	return Forall([]*Term{q}, Implies(And(Le(Num(0), q), Lt(q, Num(n))), c.elemEq(Select(a, q), Select(b, q), elem)))
}

func (c *FCtx) elemEq(a, b *Term, elem types.Type) *Term {
	switch u := elem.Underlying().(type) {
	case *types.Array:
		return c.arrEqRange(a, b, u.Len(), u.Elem())
	case *types.Struct:
		if u.NumFields() == 1 && !c.isOpaque(elem) {
			return c.elemEq(a, b, u.Field(0).Type())
		}
	}
	return Eq(a, b)
}

func (c *FCtx) memTerm(st *State, lv LV) *Term {
	cv := st.cells[lv.Cell]
	v := c.project(cv, lvPath(lv))
	switch x := v.(type) {
	case MV:
		return x.T
	case AV:
		return x.T
	}
	fail("slice backing store is %T", v)
	return nil
}

func (c *FCtx) strEq(st *State, a, b LV) *Term {
	ma, mb := c.memTerm(st, a), c.memTerm(st, b)
	q := Sym(c.freshName("q"), SInt)
	return And(Eq(a.Len, b.Len), Forall([]*Term{q}, Implies(And(Le(Num(0), q), Lt(q, a.Len)), Eq(Select(ma, Add(a.Off, q)), Select(mb, Add(b.Off, q))))))
}

func (c *FCtx) strConcat(st *State, a, b LV, t types.Type) Val {
	ma, mb := c.memTerm(st, a), c.memTerm(st, b)
	nm := Sym(c.freshName("cat$mem"), SArr(SInt))
	q := Sym(c.freshName("q"), SInt)
	st.assume(Forall([]*Term{q}, Implies(And(Le(Num(0), q), Lt(q, a.Len)), Eq(Select(nm, q), Select(ma, Add(a.Off, q)))), Select(nm, q)))
	q2 := Sym(c.freshName("q"), SInt)
	st.assume(Forall([]*Term{q2}, Implies(And(Le(Num(0), q2), Lt(q2, b.Len)), Eq(Select(nm, Add(a.Len, q2)), Select(mb, Add(b.Off, q2))))))
	cell := c.newCell(st, MV{nm, types.Typ[types.Uint8]})
	n := Add(a.Len, b.Len)
	return LV{Cell: cell, Off: Num(0), Len: n, Cap: n, Elem: types.Typ[types.Uint8], IsNil: False(), Str: true, Typ: t}
}

// arith implements + - * / % & | ^ &^ on machine integers of type t.
func (c *FCtx) arith(st *State, op token.Token, l, r *Term, t types.Type, e ast.Node, le, re ast.Expr) *Term {
	k, ok := intKindOf(t)
	if !ok {
		fail("arithmetic on non-integer type %s", t)
	}
	finish := func(raw *Term) *Term {
		if raw.IsNum() {
			return wrapTo(raw, k)
		}
		if k.bits == 64 && k.signed || c.nooverflow {
			c.oblige(st, "safety", "overflow "+c.exprStr(e), rangeFact(raw, k), c.eng.pos(e))
			st.assume(rangeFact(raw, k))
			return raw
		}
		return wrapTo(raw, k)
	}
	switch op {
	case token.ADD:
		return finish(Add(l, r))
	case token.SUB:
		if s, ok := c.pow2Of[l]; ok && r.IsNum() && r.Num.Cmp(big.NewInt(1)) == 0 {
			res := finish(Sub(l, r))
			c.maskOf[res] = s
			return res
		}
		return finish(Sub(l, r))
	case token.MUL:
		return finish(Mul(l, r))
	case token.QUO, token.REM:
		c.oblige(st, "safety", "div-by-zero "+c.exprStr(e), Ne(r, Num(0)), c.eng.pos(e))
		st.assume(Ne(r, Num(0)))
		var q, m *Term
		if !k.signed {
			q, m = Div(l, r), Mod(l, r)
		} else {
			// Go truncates toward zero; SMT div is Euclidean
			al := Ite(Ge(l, Num(0)), l, Neg(l))
			ar := Ite(Ge(r, Num(0)), r, Neg(r))
			qa := Div(al, ar)
			sameSign := Eq(Ge(l, Num(0)), Ge(r, Num(0)))
			q = Ite(sameSign, qa, Neg(qa))
			ma := Mod(al, ar)
			m = Ite(Ge(l, Num(0)), ma, Neg(ma))
			if l.IsNum() && r.IsNum() {
				qq := new(big.Int).Quo(l.Num, r.Num)
				mm := new(big.Int).Rem(l.Num, r.Num)
				q, m = NumB(qq), NumB(mm)
			}
		}
		if op == token.QUO {
			return finish(q) // MinInt / -1 overflows: covered by finish
		}
		return m
	case token.AND:
		return c.bitAnd(st, l, r, k)
	case token.OR:
		return c.bitOr(st, l, r, k, le, re)
	case token.XOR:
		return c.bitXor(st, l, r, k)
	case token.AND_NOT:
		// x &^ y = x & ^y
		var ny *Term
		if k.signed {
			ny = Sub(Neg(r), Num(1))
		} else {
			ny = Sub(NumB(k.max()), r)
		}
		return c.bitAnd(st, l, ny, k)
	}
	fail("operator %s", op)
	return nil
}

// maskShape: m = (2^b - 1) << a
func maskShape(m *big.Int) (a, b uint, ok bool) {
	if m.Sign() <= 0 {
		return 0, 0, false
	}
	a = m.TrailingZeroBits()
	sh := new(big.Int).Rsh(m, a)
	sh1 := new(big.Int).Add(sh, big.NewInt(1))
	if new(big.Int).And(sh, sh1).Sign() != 0 {
		return 0, 0, false
	}
	return a, uint(sh.BitLen()), true
}

func (c *FCtx) bitAnd(st *State, l, r *Term, k intKind) *Term {
	if l.IsNum() && !r.IsNum() {
		l, r = r, l
	}
	if l.IsNum() && r.IsNum() {
		return wrapTo(NumB(new(big.Int).And(l.Num, r.Num)), k)
	}
	if r.IsNum() {
		if r.Num.Sign() == 0 {
			return Num(0)
		}
		if a, b, ok := maskShape(r.Num); ok {
			// two's complement: x & ((2^b-1)<<a) = ((x mod 2^(a+b)) div 2^a) * 2^a, for negative x as well
			return Mul(Div(Mod(l, Pow2(a+b)), Pow2(a)), Pow2(a))
		}
		if r.Num.Cmp(big.NewInt(-1)) == 0 {
			return l
		}
	}
	if _, lm := c.maskOf[l]; lm {
		if _, rm := c.maskOf[r]; !rm {
			l, r = r, l // AND is commutative: the tracked mask goes to the right
		}
	}
	if s, ok := c.maskOf[r]; ok {
		// x & ((1<<s)-1) = x mod 2^s for 0 <= s < bits (two's complement), case split over s
		res := l
		for i := int(k.bits) - 1; i >= 0; i-- {
			res = Ite(Eq(s, Num(int64(i))), Mod(l, Pow2(uint(i))), res)
		}
		return res
	}
	// general case: uninterpreted, with sound facts about two's complement AND; the operands are put in a canonical
	// order so that `a & b` and `b & a` are the same term
	if l.String() > r.String() {
		l, r = r, l
	}
	res := App("band", SInt, l, r)
	st.assumeAbout(res, Implies(Eq(l, Num(0)), Eq(res, Num(0))))
	st.assumeAbout(res, Implies(Eq(r, Num(0)), Eq(res, Num(0))))
	st.assumeAbout(res, Implies(Eq(l, Num(-1)), Eq(res, r)))
	st.assumeAbout(res, Implies(Eq(r, Num(-1)), Eq(res, l)))
	st.assumeAbout(res, Implies(Ge(l, Num(0)), And(Le(Num(0), res), Le(res, l))))
	st.assumeAbout(res, Implies(Ge(r, Num(0)), And(Le(Num(0), res), Le(res, r))))
	// a symbolic mask that turns out to be 2^b - 1 (e.g. params.w - 1 with w in {4,16,256}): x & (2^b-1) = x mod 2^b
	for _, b := range []uint{1, 2, 3, 4, 5, 6, 7, 8, 16, 32} {
		if b < k.bits {
			st.assumeAbout(res, Implies(Eq(r, Sub(Pow2(b), Num(1))), Eq(res, Mod(l, Pow2(b)))))
			st.assumeAbout(res, Implies(Eq(l, Sub(Pow2(b), Num(1))), Eq(res, Mod(r, Pow2(b)))))
		}
	}
	st.assumeAbout(res, rangeFact(res, k))
	return res
}

func shiftConsts(e ast.Expr, info *types.Info, out map[uint]bool) {
	ast.Inspect(e, func(n ast.Node) bool {
		if b, ok := n.(*ast.BinaryExpr); ok && b.Op == token.SHL {
			if tv, ok := info.Types[b.Y]; ok && tv.Value != nil {
				if v, ok := constant.Uint64Val(constant.ToInt(tv.Value)); ok && v < 64 {
					out[uint(v)] = true
				}
			}
		}
		return true
	})
}

func (c *FCtx) bitOr(st *State, l, r *Term, k intKind, le, re ast.Expr) *Term {
	if l.IsNum() && r.IsNum() {
		return wrapTo(NumB(new(big.Int).Or(l.Num, r.Num)), k)
	}
	if l.IsNum() && l.Num.Sign() == 0 {
		return r
	}
	if r.IsNum() && r.Num.Sign() == 0 {
		return l
	}
	res := App("bor", SInt, l, r)
	// sound facts about OR; the disjoint-bits case is the one the packers need:
	// if one operand is a multiple of 2^s and the other lies in [0, 2^s) then OR is +
	cands := map[uint]bool{}
	if le != nil {
		shiftConsts(le, c.info, cands)
	}
	if re != nil {
		shiftConsts(re, c.info, cands)
	}
	if len(cands) == 0 {
		for _, s := range []uint{4, 8, 16, 24} {
			cands[s] = true
		}
		if k.bits == 64 {
			// byte-wise assembly of a 64-bit word (x |= uint64(b) << (8*i)): all byte boundaries
			for _, s := range []uint{32, 40, 48, 56} {
				cands[s] = true
			}
		}
	}
	for s := range cands {
		p := Pow2(s)
		st.assumeAbout(res, Implies(And(Eq(Mod(l, p), Num(0)), Le(Num(0), r), Lt(r, p)), Eq(res, Add(l, r))))
		st.assumeAbout(res, Implies(And(Eq(Mod(r, p), Num(0)), Le(Num(0), l), Lt(l, p)), Eq(res, Add(l, r))))
	}
	st.assumeAbout(res, Implies(Eq(l, Num(0)), Eq(res, r)))
	st.assumeAbout(res, Implies(Eq(r, Num(0)), Eq(res, l)))
	st.assumeAbout(res, Implies(And(Ge(l, Num(0)), Ge(r, Num(0))), And(Le(l, res), Le(r, res), Le(res, Add(l, r)))))
	st.assumeAbout(res, Eq(Eq(res, Num(0)), And(Eq(l, Num(0)), Eq(r, Num(0))))) // x|y == 0 <=> x == 0 && y == 0
	st.assumeAbout(res, rangeFact(res, k))
	return res
}

func (c *FCtx) bitXor(st *State, l, r *Term, k intKind) *Term {
	if l.IsNum() && r.IsNum() {
		return wrapTo(NumB(new(big.Int).Xor(l.Num, r.Num)), k)
	}
	res := App("bxor", SInt, l, r)
	st.assumeAbout(res, Implies(Eq(l, Num(0)), Eq(res, r)))
	st.assumeAbout(res, Implies(Eq(r, Num(0)), Eq(res, l)))
	st.assumeAbout(res, Eq(Eq(res, Num(0)), Eq(l, r))) // x^y == 0 <=> x == y
	st.assumeAbout(res, rangeFact(res, k))
	return res
}

func (c *FCtx) shift(st *State, op token.Token, l, r *Term, t, rt types.Type, e ast.Node) *Term {
	k, ok := intKindOf(t)
	if !ok {
		fail("shift of non-integer")
	}
	if rk, ok := intKindOf(rt); ok && rk.signed && !r.IsNum() {
		c.oblige(st, "safety", "negative-shift "+c.exprStr(e), Ge(r, Num(0)), c.eng.pos(e))
		st.assume(Ge(r, Num(0)))
	}
	one := func(s uint) *Term {
		if op == token.SHL {
			if s >= k.bits {
				return Num(0)
			}
			raw := Mul(l, Pow2(s))
			return wrapTo(raw, k) // shifts discard high bits by definition: exact for every width
		}
		if s >= k.bits {
			if k.signed {
				return Ite(Lt(l, Num(0)), Num(-1), Num(0))
			}
			return Num(0)
		}
		return Div(l, Pow2(s)) // floor division = arithmetic shift for signed, logical for unsigned
	}
	if r.IsNum() {
		if r.Num.Sign() < 0 {
			fail("negative constant shift")
		}
		if !r.Num.IsUint64() || r.Num.Uint64() >= uint64(k.bits) {
			return one(k.bits)
		}
		return one(uint(r.Num.Uint64()))
	}
	// variable count: case split over 0..bits-1, else saturate
	res := one(k.bits)
	for s := int(k.bits) - 1; s >= 0; s-- {
		res = Ite(Eq(r, Num(int64(s))), one(uint(s)), res)
	}
	if op == token.SHL && l.IsNum() && l.Num.Cmp(big.NewInt(1)) == 0 {
		c.pow2Of[res] = r
	}
	return res
}

// convert implements T(x) for integer and a few other conversions.
func (c *FCtx) convert(st *State, v Val, from, to types.Type, e ast.Expr) Val {
	if nv, ok := v.(nilVal); ok {
		_ = nv
		return c.zeroVal(st, to)
	}
	if tk, ok := intKindOf(to); ok {
		sv, ok := v.(SV)
		if !ok {
			fail("conversion of %T to integer", v)
		}
		if fk, ok := intKindOf(from); ok {
			if tk.contains(fk) {
				return SV{sv.T, to}
			}
			if sv.T.IsNum() {
				return SV{wrapTo(sv.T, tk), to}
			}
			return SV{wrapTo(sv.T, tk), to}
		}
		fail("conversion from %s to %s", from, to)
	}
	if isBool(to) {
		return v
	}
	// []byte(string), string([]byte): copy
	if _, ok := to.Underlying().(*types.Slice); ok {
		if lv, ok := v.(LV); ok {
			if lv.Str {
				return c.copySlice(st, lv, to, false)
			}
			lv.Typ = to
			return lv
		}
	}
	if isString(to) {
		if lv, ok := v.(LV); ok {
			if !lv.Str {
				return c.copySlice(st, lv, to, true)
			}
			lv.Typ = to
			return lv
		}
	}
	// named <-> underlying of identical structure
	if types.Identical(from.Underlying(), to.Underlying()) {
		switch x := v.(type) {
		case SV:
			return SV{x.T, to}
		case AV:
			return AV{x.T, to}
		case TV:
			return TV{x.Fs, to}
		}
		return v
	}
	fail("conversion from %s to %s", from, to)
	return nil
}

func (c *FCtx) copySlice(st *State, lv LV, to types.Type, str bool) Val {
	m := c.memTerm(st, lv)
	nm := Sym(c.freshName("copy$mem"), SArr(SInt))
	q := Sym(c.freshName("q"), SInt)
	st.assume(Forall([]*Term{q}, Implies(And(Le(Num(0), q), Lt(q, lv.Len)), Eq(Select(nm, q), Select(m, Add(lv.Off, q)))), Select(nm, q)))
	st.assume(c.memTypeInv(nm, types.Typ[types.Uint8]))
	cell := c.newCell(st, MV{nm, types.Typ[types.Uint8]})
	return LV{Cell: cell, Off: Num(0), Len: lv.Len, Cap: lv.Len, Elem: types.Typ[types.Uint8], IsNil: False(), Str: str, Typ: to}
}

func (c *FCtx) evalSliceExpr(st *State, x *ast.SliceExpr) Val {
	if x.Slice3 {
		fail("3-index slice")
	}
	bt := c.info.TypeOf(x.X)
	rt := c.info.TypeOf(x)
	var base LV
	switch u := bt.Underlying().(type) {
	case *types.Slice:
		base = c.eval(st, x.X).(LV)
	case *types.Basic:
		if !isString(bt) {
			fail("slice of %s", bt)
		}
		base = c.eval(st, x.X).(LV)
	case *types.Array:
		p, ok := c.resolvePlace(st, x.X)
		if !ok {
			fail("slice of non-addressable array")
		}
		base = c.arrayWindow(p, u, rt)
	case *types.Pointer:
		at := u.Elem().Underlying().(*types.Array)
		pv := c.eval(st, x.X).(PV)
		p := c.derefPtr(st, pv, x.X)
		base = c.arrayWindow(p, at, rt)
	default:
		fail("slice of %s", bt)
	}
	lo := Num(0)
	if x.Low != nil {
		lo = c.evalIndex(st, x.Low)
	}
	hi := base.Len
	if x.High != nil {
		hi = c.evalIndex(st, x.High)
	}
	limit := base.Cap
	if base.Str {
		limit = base.Len
	}
	goal := And(Le(Num(0), lo), Le(lo, hi), Le(hi, limit))
	c.oblige(st, "safety", "slice-bounds "+c.exprStr(x), goal, c.eng.pos(x))
	st.assume(goal)
	out := base
	out.Off = Add(base.Off, lo)
	out.Len = Sub(hi, lo)
	out.Cap = Sub(base.Cap, lo)
	out.IsNil = False()
	if _, isSlice := bt.Underlying().(*types.Slice); isSlice {
		// slicing a nil slice [0:0] stays nil
		out.IsNil = And(base.IsNil)
	}
	out.Typ = rt
	return out
}

func (c *FCtx) arrayWindow(p Place, at *types.Array, rt types.Type) LV {
	lv := LV{Cell: p.Cell, Off: Num(0), Len: Num(at.Len()), Cap: Num(at.Len()), Elem: at.Elem(), IsNil: False(), Typ: rt}
	lv.Path = p.Path
	return lv
}

func (c *FCtx) evalCompositeLit(st *State, x *ast.CompositeLit) Val {
	t := c.info.TypeOf(x)
	switch u := t.Underlying().(type) {
	case *types.Struct:
		v := c.zeroVal(st, t).(TV)
		fs := append([]Val(nil), v.Fs...)
		for i, el := range x.Elts {
			if kv, ok := el.(*ast.KeyValueExpr); ok {
				name := kv.Key.(*ast.Ident).Name
				found := false
				for j := 0; j < u.NumFields(); j++ {
					if u.Field(j).Name() == name {
						fs[j] = c.coerceNil(st, c.eval(st, kv.Value), u.Field(j).Type())
						found = true
					}
				}
				if !found {
					fail("unknown field %s", name)
				}
			} else {
				fs[i] = c.coerceNil(st, c.eval(st, el), u.Field(i).Type())
			}
		}
		return TV{fs, t}
	case *types.Array:
		arr := c.zeroTerm(t)
		for i, el := range x.Elts {
			if _, ok := el.(*ast.KeyValueExpr); ok {
				fail("keyed array literal")
			}
			arr = Store(arr, Num(int64(i)), c.valToTerm(c.eval(st, el)))
		}
		return AV{arr, t}
	case *types.Slice:
		arr := c.zeroMem(u.Elem())
		for i, el := range x.Elts {
			if _, ok := el.(*ast.KeyValueExpr); ok {
				fail("keyed slice literal")
			}
			arr = Store(arr, Num(int64(i)), c.valToTerm(c.eval(st, el)))
		}
		cell := c.newCell(st, MV{arr, u.Elem()})
		n := Num(int64(len(x.Elts)))
		return LV{Cell: cell, Off: Num(0), Len: n, Cap: n, Elem: u.Elem(), IsNil: False(), Typ: t}
	}
	fail("composite literal of type %s", t)
	return nil
}
