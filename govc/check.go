package main

import (
	"fmt"
	"time"
)

func runPropertyCheck(e *Engine, prop, tier string, seed int, t0 time.Time) int {
	fmt.Println("not implemented")
	return 3
}

func cmdReplay(args []string) int { return 3 }
