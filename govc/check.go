package main

// `govc check -p <id>`: the registered check of one property.

import (
	"encoding/json"
	"fmt"
	"os"
	"os/exec"
	"path/filepath"
	"regexp"
	"sort"
	"strings"
	"time"
)

type ExtraResult struct {
	Name    string `json:"name"`
	Backend string `json:"backend"` // table | linform | effects | bounded | sampled
	OK      bool   `json:"ok"`
	Cases   int    `json:"cases"`
	Detail  string `json:"detail"`
	Bounded bool   `json:"bounded"`          // true: a bounded stand-in, never counted as discharged
	Bound   string `json:"bound,omitempty"`
	WallS   float64 `json:"wall_s"`
}

type propConfig struct {
	level   string
	explain string
	extras  func(e *Engine, tier string, seed int) []ExtraResult
	trusted []string
}

var propConfigs = map[string]*propConfig{}

type KnownFindings struct {
	Findings []struct {
		Property   string `json:"property"`
		Obligation string `json:"obligation"` // regexp on the obligation name
		What       string `json:"what"`
	} `json:"findings"`
	Fixed []struct {
		Property string `json:"property"`
		Commit   string `json:"commit"`
		What     string `json:"what"`
	} `json:"fixed"`
}

func loadKnown() *KnownFindings {
	kf := &KnownFindings{}
	data, err := os.ReadFile(filepath.Join(verifRoot, "known_findings.json"))
	if err == nil {
		json.Unmarshal(data, kf)
	}
	return kf
}

var baseTrusted = []string{
	"T1 govc itself: VC generator over go/ast+go/types of /repo's working tree, SMT printer (mitigated by must-fail mutants, vacuity guards)",
	"T2 SMT solvers z3 5.1.0, cvc5 1.0.3, z3 4.8.12",
	"T3 spec prelude /verif/spec/*.smt2 is the right reading of the specification documents",
	"T9 Go compiler/runtime implement the Go specification (wrapping arithmetic, bounds checks)",
}

func runPropertyCheck(e *Engine, prop, tier string, seed int, t0 time.Time) int {
	cfg := propConfigs[prop]
	if cfg == nil {
		cfg = &propConfig{level: "proof"}
	}
	thorough := tier == "thorough"
	timeout := 30
	if thorough {
		timeout = 120
	}
	keys := e.closureFor(prop)
	if len(keys) == 0 && cfg.extras == nil {
		fmt.Printf("govc: no contract is tagged with %s\n", prop)
		return 3
	}
	rs := e.verifyMany(keys, true, timeout, thorough)

	var extras []ExtraResult
	if cfg.extras != nil {
		extras = cfg.extras(e, tier, seed)
	}
	extras = append(extras, e.contractEffects(keys)...)

	// verdicts
	groupOK := map[string]bool{}
	for _, o := range rs.obls {
		if o.Group != "" && o.ExpectSat && o.Status != "unsat" && o.Status != "error" {
			groupOK[o.Group] = true
		}
	}
	kf := loadKnown()
	type viol struct {
		name, detail, replay string
		concrete            bool
	}
	var viols []viol
	known := 0
	nObl, nDis, nGuards := 0, 0, 0
	byBackend := map[string]int{}
	solverTime, maxTime := 0.0, 0.0
	var maxName string
	funcsUnder := map[string]bool{}
	var samples []map[string]interface{}
	assume := map[string]bool{}
	for _, r := range rs.results {
		for _, n := range r.Notes {
			assume[n] = true
		}
		if r.Trusted {
			continue
		}
		funcsUnder[r.Key] = true
		if r.Err != "" {
			nObl++
			viols = append(viols, viol{name: r.Key + "/engine", detail: "obligations of " + r.Key + " could not be generated: " + r.Err})
		}
	}
	for _, le := range rs.lemmaErrs {
		nObl++
		viols = append(viols, viol{name: "lemma/engine", detail: le})
	}
	isKnown := func(name string) (string, bool) {
		for _, f := range kf.Findings {
			if f.Property != prop {
				continue
			}
			if re, err := regexp.Compile(f.Obligation); err == nil && re.MatchString(name) {
				return f.What, true
			}
		}
		return "", false
	}
	knownPrinted := map[string]bool{}
	for _, o := range rs.obls {
		good := oblOK(o)
		if o.Group != "" && groupOK[o.Group] {
			good = true
		}
		solverTime += o.TimeS
		if o.TimeS > maxTime {
			maxTime, maxName = o.TimeS, o.Name
		}
		if o.ExpectSat {
			nGuards++
		} else {
			nObl++
			if good {
				nDis++
				byBackend[o.Solver]++
			}
		}
		if len(samples) < 6 && !o.ExpectSat && good && (o.Kind == "ensures" || o.Kind == "lemma" || o.Kind == "inv-preserved") {
			samples = append(samples, map[string]interface{}{"obligation": o.Name, "kind": o.Kind, "at": o.Pos, "status": o.Status, "solver": o.Solver, "time_s": round3(o.TimeS)})
		}
		if good {
			continue
		}
		if what, ok := isKnown(o.Name); ok {
			known++
			if !knownPrinted[what] {
				fmt.Printf("KNOWN-FINDING: property=%s %s\n", prop, what)
				knownPrinted[what] = true
			}
			continue
		}
		det := fmt.Sprintf("%s obligation %s at %s: solver status %s", o.Kind, o.Name, o.Pos, o.Status)
		if o.ExpectSat {
			det = fmt.Sprintf("vacuity guard %s at %s is unsatisfiable (contradictory contract or unreachable code)", o.Name, o.Pos)
		}
		viols = append(viols, viol{name: o.Name, detail: det + "\n" + o.Model, replay: o.SMTFile})
	}
	// the slowest discharged obligations (flakiness watch-list)
	type slow struct {
		n string
		t float64
		s string
	}
	var slows []slow
	for _, o := range rs.obls {
		if !o.ExpectSat {
			slows = append(slows, slow{o.Name, o.TimeS, o.Solver})
		}
	}
	sort.Slice(slows, func(i, j int) bool { return slows[i].t > slows[j].t })
	var slowOut []map[string]interface{}
	for i := 0; i < len(slows) && i < 5; i++ {
		slowOut = append(slowOut, map[string]interface{}{"obligation": slows[i].n, "time_s": round3(slows[i].t), "solver": slows[i].s})
	}
	for _, x := range extras {
		if x.Bounded {
			continue
		}
		nObl++
		if x.OK {
			nDis++
			byBackend[x.Backend]++
		} else {
			if what, ok := isKnown(x.Name); ok {
				known++
				if !knownPrinted[what] {
					fmt.Printf("KNOWN-FINDING: property=%s %s\n", prop, what)
					knownPrinted[what] = true
				}
				continue
			}
			viols = append(viols, viol{name: x.Backend + "/" + x.Name, detail: x.Detail})
		}
	}
	for _, x := range extras {
		if x.Bounded && !x.OK {
			if what, ok := isKnown(x.Name); ok {
				known++
				if !knownPrinted[what] {
					fmt.Printf("KNOWN-FINDING: property=%s %s\n", prop, what)
					knownPrinted[what] = true
				}
				continue
			}
			viols = append(viols, viol{name: x.Backend + "/" + x.Name, detail: x.Detail, concrete: true})
		}
	}

	// replay files + VIOLATION lines
	rdir := filepath.Join(outRoot(), "replays", prop)
	for i := range viols {
		v := &viols[i]
		os.MkdirAll(rdir, 0o755)
		path := filepath.Join(rdir, sanitize(v.name)+".json")
		rep := map[string]interface{}{"property": prop, "obligation": v.name, "verifier_output": v.detail, "smt_file": v.replay, "tier": tier}
		concrete := v.concrete
		if !concrete {
			if res := e.tryReplay(prop, v.name, rs.obls); res != nil {
				rep["replay"] = res
				if ok, _ := res["reproduced"].(bool); ok {
					concrete = true
				}
			}
		}
		rep["failing_input_found"] = concrete
		writeJSON(path, rep)
		line := fmt.Sprintf("VIOLATION property=%s replay=%s", prop, path)
		if !concrete {
			line += " obligation=" + strings.ReplaceAll(v.name, " ", "_") + " no-failing-input-found"
		}
		fmt.Println(line)
	}

	// evidence
	var fl []string
	for k := range funcsUnder {
		fl = append(fl, k)
	}
	sort.Strings(fl)
	al := []string{}
	for k := range assume {
		al = append(al, k)
	}
	for _, c := range e.cs.Funcs {
		if c.Used && c.External {
			al = append(al, "assumed contract on dependency (unchecked): "+c.Key)
		}
	}
	al = append(al, cfg.trusted...)
	sort.Strings(al)
	al = dedup(al)
	cov := map[string]interface{}{
		"obligations":              nObl,
		"discharged":               nDis,
		"checker_cmd":              fmt.Sprintf("/verif/bin/govc check -p %s -tier %s  (z3-new 5.1.0 | cvc5 1.0.3 | z3 4.8.12 | z3-new without equation elimination | hypothesis-sliced z3-new raced per obligation, timeout %ds; at most 6 undecided obligations are retried once alone with 3x the limit)", prop, tier, timeout),
		"trusted_base":             append(append([]string{}, baseTrusted...), cfg.trusted...),
		"functions_under_contract": fl,
		"by_backend":               byBackend,
		"solver_time_s":            map[string]interface{}{"sum": round3(solverTime), "max": round3(maxTime), "max_obligation": maxName},
		"vacuity_guards":           nGuards,
		"known_findings_matched":   known,
		"samples":                  samples,
		"slowest":                  slowOut,
		"retried_after_timeout":    retriedNames(rs.obls),
		"contract_files":           e.cs.Files,
		"spec_files":               e.spec.files,
	}
	if len(extras) > 0 {
		cov["other_backends"] = extras
		var bounded []ExtraResult
		for _, x := range extras {
			if x.Bounded {
				bounded = append(bounded, x)
			}
		}
		if len(bounded) > 0 {
			cov["bounded"] = bounded
		}
	}
	level := cfg.level
	if level == "" {
		level = "proof"
	}
	if cfg.explain != "" {
		cov["explanation"] = cfg.explain
	}
	if len(samples) == 0 {
		cov["samples"] = []map[string]interface{}{{"note": "no solver obligation in this property; see other_backends"}}
	}
	ev := Evidence{PropertyID: prop, Tier: tier, Seed: seed, Level: level, Coverage: cov, Assumptions: al, WallS: round3(time.Since(t0).Seconds()), Violations: len(viols)}
	if err := writeJSON(filepath.Join(outRoot(), "evidence", prop+".json"), ev); err != nil {
		fmt.Fprintln(os.Stderr, "govc: evidence:", err)
		return 3
	}
	fmt.Printf("%s: %d obligations, %d discharged, %d vacuity guards, %d violations, %d known findings, %.1fs\n", prop, nObl, nDis, nGuards, len(viols), known, time.Since(t0).Seconds())
	if len(viols) > 0 {
		return 1
	}
	return 0
}

func round3(f float64) float64 { return float64(int64(f*1000+0.5)) / 1000 }

func dedup(s []string) []string {
	out := []string{}
	for i, x := range s {
		if i == 0 || x != s[i-1] {
			out = append(out, x)
		}
	}
	return out
}


func cmdReplay(args []string) int {
	if len(args) < 1 {
		usage()
	}
	data, err := os.ReadFile(args[0])
	if err != nil {
		fmt.Fprintln(os.Stderr, err)
		return 3
	}
	var rep map[string]interface{}
	if err := json.Unmarshal(data, &rep); err != nil {
		fmt.Fprintln(os.Stderr, err)
		return 3
	}
	prop, _ := rep["property"].(string)
	e := load()
	if r, ok := rep["replay"].(map[string]interface{}); ok {
		// a recorded counterexample: run the recorded in-package test against the current working tree
		src, _ := r["test_source"].(string)
		dir, _ := r["package_dir"].(string)
		if src != "" && dir != "" {
			fmt.Printf("replaying %s: running the recorded input against the real code in %s\n", rep["obligation"], dir)
			run, out, err := e.runReplayTest(dir, src)
			if run == nil {
				fmt.Printf("replay run failed: %v\n%s\n", err, tailStr(out, 800))
				return 3
			}
			j, _ := json.Marshal(run)
			fmt.Printf("inputs: %v\nobserved now: %s\nrecorded:     %v\n", r["inputs"], j, r["observed"])
			fmt.Printf("(then re-running the check of property %s on the current tree)\n", prop)
		}
	}
	fmt.Printf("replaying %s: re-running the check of property %s on the current tree\n", rep["obligation"], prop)
	e.prop = prop
	return runPropertyCheck(e, prop, "quick", 0, time.Now())
}

// ---- overlay runs of the real code --------------------------------------------------------------------------

// runOverlayTest injects harness files (dst path inside the repo -> source text) and runs `go test`.
func (e *Engine) runOverlayTest(pkgDir string, files map[string]string, runPat string, timeoutS int, extraArgs ...string) (string, error) {
	dir := scratchDir()
	defer os.RemoveAll(dir)
	repl := map[string]string{}
	i := 0
	for dst, text := range files {
		src := filepath.Join(dir, fmt.Sprintf("h%d.go", i))
		i++
		if err := os.WriteFile(src, []byte(text), 0o644); err != nil {
			return "", err
		}
		repl[filepath.Join(e.repo, dst)] = src
	}
	ov, _ := json.Marshal(map[string]interface{}{"Replace": repl})
	ovf := filepath.Join(dir, "ov.json")
	os.WriteFile(ovf, ov, 0o644)
	args := []string{"test", "-overlay", ovf, "-vet=off", "-count=1", fmt.Sprintf("-timeout=%ds", timeoutS), "-run", runPat, "-v"}
	args = append(args, extraArgs...)
	args = append(args, "./"+pkgDir)
	cmd := exec.Command("go", args...)
	cmd.Dir = e.repo
	cmd.Env = goEnv()
	for _, k := range []string{"VERIF_HEIGHTS", "VERIF_SEED"} {
		if v := os.Getenv(k); v != "" {
			cmd.Env = append(cmd.Env, k+"="+v)
		}
	}
	out, err := cmd.CombinedOutput()
	return string(out), err
}

func readHarness(rel string) string {
	data, err := os.ReadFile(filepath.Join(verifRoot, "harness", rel))
	if err != nil {
		return ""
	}
	return string(data)
}

var tableLine = regexp.MustCompile(`(?m)^TABLE (\S+) cases=(\d+) ok=(true|false)(.*)$`)

func parseTable(out string, backend string, wall float64) []ExtraResult {
	var rs []ExtraResult
	for _, m := range tableLine.FindAllStringSubmatch(out, -1) {
		n := 0
		fmt.Sscanf(m[2], "%d", &n)
		rs = append(rs, ExtraResult{Name: m[1], Backend: backend, OK: m[3] == "true", Cases: n, Detail: strings.TrimSpace(m[4]) + " (exhaustive evaluation of the real code)", WallS: round3(wall)})
	}
	return rs
}

// contractEffects: `pure` clauses and the assigns clauses of trusted (body not symbolically executed) repository
// functions in the closure are discharged by the effects back end on go/ssa.
func (e *Engine) contractEffects(keys []string) []ExtraResult {
	var need []string
	for _, k := range keys {
		con := e.cs.Funcs[k]
		if con == nil || con.External || e.funcs[k] == nil {
			continue
		}
		if con.Pure || (con.Trusted != "" && len(con.Assigns) > 0) || len(con.Reads) > 0 {
			need = append(need, k)
		}
	}
	if len(need) == 0 {
		return nil
	}
	ef := e.BuildEffects()
	var obs []EffOb
	for _, k := range need {
		con := e.cs.Funcs[k]
		if con.Pure {
			obs = append(obs, ef.obPure(k))
		}
		for pn, rd := range con.Reads {
			obs = append(obs, ef.obReadsOnly(k, pn, rd[0], rd[1]))
		}
		names := paramNames(e.funcs[k], con, e.funcs[k].Obj)
		allowed := map[int]bool{}
		for _, a := range con.Assigns {
			root := strings.TrimLeft(a.Src, "*( ")
			for i, c := range root {
				if !(c == '_' || c >= 'a' && c <= 'z' || c >= 'A' && c <= 'Z' || c >= '0' && c <= '9') {
					root = root[:i]
					break
				}
			}
			for i, n := range names {
				if n == root {
					allowed[i] = true
				}
			}
		}
		obs = append(obs, ef.obWritesOnly(k, allowed), ef.obNoGlobalWrites(k))
	}
	return effExtras(obs)
}


// retriedNames: obligations that were undecided at the first attempt (solver limit under load) and were decided at
// the second, longer one; reported so that creeping slowness is visible in the evidence
func retriedNames(obls []*Obligation) []string {
	out := []string{}
	for _, o := range obls {
		if o.Retried {
			out = append(out, fmt.Sprintf("%s (%s after retry)", o.Name, o.Status))
		}
	}
	return out
}
