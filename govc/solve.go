package main

// Back end 1 (smt): one SMT-LIB file per obligation, solvers raced.

import (
	"bytes"
	"context"
	"fmt"
	"os"
	"os/exec"
	"path/filepath"
	"sort"
	"strings"
	"sync"
	"time"
)

type solverSpec struct {
	name string
	cmd  func(file string, timeoutS int) []string
}

var solvers = []solverSpec{
	{"z3-5.1", func(f string, t int) []string { return []string{"z3-new", fmt.Sprintf("-T:%d", t), f} }},
	{"cvc5-1.0", func(f string, t int) []string {
		return []string{"cvc5", fmt.Sprintf("--tlimit=%d", t*1000), f}
	}},
	{"z3-4.8", func(f string, t int) []string { return []string{"z3", fmt.Sprintf("-T:%d", t), f} }},
	// same solver without equation elimination: eliminating a loop counter through an equation such as
	// `nzrow(row) == j - k` rewrites the index terms the quantifier patterns have to match and loses the proof
	{"z3-5.1/noelim", func(f string, t int) []string {
		return []string{"z3-new", "smt.solve_eqs=false", fmt.Sprintf("-T:%d", t), f}
	}},
}

func sortTokens(s Sort, out map[string]bool) {
	for _, tk := range strings.FieldsFunc(string(s), func(r rune) bool { return r == '(' || r == ')' || r == ' ' }) {
		if tk != "Array" && tk != "Int" && tk != "Bool" {
			out[tk] = true
		}
	}
}

// alphaDedup: drop hypotheses that differ from an earlier one only in the names of bound variables
var alphaDedup = false

const vcSizeCap = 4 << 20

// lemmaHyp marks hypotheses that are `use`d lemmas (quantified facts about specification functions).  Such a lemma is
// shipped with a VC only if every specification function it is about occurs in the rest of the VC: a congruence lemma
// for lnode cannot help a VC that does not mention lnode, and quantified hypotheses slow the solvers down.
var lemmaHyp = map[*Term]bool{}
var lemmaHypMu sync.Mutex

var commonSpecSyms = map[string]bool{"sub": true, "cat": true, "overlay": true, "shake": true, "sha256": true, "toByte32": true, "addrBytes": true,
	"xorArr": true, "hashArr": true, "bxor": true, "band": true, "bor": true, "shakeArr": true, "bdiff": true, "subdiff": true, "byte32": true}

func (e *Engine) dropIrrelevantLemmas(o *Obligation) []*Term {
	var lemmas, rest []*Term
	lemmaHypMu.Lock()
	defer lemmaHypMu.Unlock()
	for _, h := range o.Hyps {
		if lemmaHyp[h] {
			lemmas = append(lemmas, h)
		} else {
			rest = append(rest, h)
		}
	}
	if len(lemmas) == 0 {
		return o.Hyps
	}
	have := map[string]symInfo{}
	for _, h := range rest {
		h.collectSyms(nil, have)
	}
	o.Goal.collectSyms(nil, have)
	out := rest
	for _, l := range lemmas {
		ls := map[string]symInfo{}
		l.collectSyms(nil, ls)
		ok := true
		for k, si := range ls {
			if len(si.Args) == 0 || commonSpecSyms[k] {
				continue
			}
			sig, isSpec := e.spec.sigs[k]
			if !isSpec || len(sig.Args) == 0 {
				continue
			}
			if _, present := have[k]; !present {
				// defined (macro) functions expand; only declared functions are matched by name
				if e.spec.isDeclared(k) {
					ok = false
				}
			}
		}
		if ok {
			out = append(out, l)
		}
	}
	return out
}

// relevantHyps drops axiom instances about application terms that do not occur in the rest of the VC.
func relevantHyps(o *Obligation) []*Term {
	var base []*Term
	type tagged struct {
		h    *Term
		subj string
	}
	var pend []tagged
	var text strings.Builder
	text.WriteString(o.Goal.String())
	for _, h := range o.Hyps {
		if subj, ok := aboutTerm[h]; ok {
			pend = append(pend, tagged{h, subj.String()})
			continue
		}
		base = append(base, h)
		text.WriteString("\n")
		text.WriteString(h.String())
	}
	all := text.String()
	for changed := true; changed && len(pend) > 0; {
		changed = false
		var rest []tagged
		for _, p := range pend {
			if strings.Contains(all, p.subj) {
				base = append(base, p.h)
				all += "\n" + p.h.String()
				changed = true
			} else {
				rest = append(rest, p)
			}
		}
		pend = rest
	}
	return base
}

// sliceHyps keeps the hypotheses within `hops` steps of the goal in the graph that links two formulas sharing a state
// symbol (a constant: a variable, a memory cell, a call result; spec functions and pure-function symbols do not link).
// Dropping hypotheses is sound: a sliced VC that is unsat proves the obligation.  Used as an extra racer for slow VCs
// of long functions, where most of the path's facts are irrelevant to the clause being proved.
func (e *Engine) sliceHyps(o *Obligation, hops int) []*Term {
	consts := func(t *Term) map[string]bool {
		syms := map[string]symInfo{}
		t.collectSyms(nil, syms)
		out := map[string]bool{}
		for k, si := range syms {
			if len(si.Args) > 0 {
				continue
			}
			if _, isSpec := e.spec.sigs[k]; isSpec {
				continue
			}
			out[k] = true
		}
		return out
	}
	cur := consts(o.Goal)
	hc := make([]map[string]bool, len(o.Hyps))
	taken := make([]bool, len(o.Hyps))
	for i, h := range o.Hyps {
		hc[i] = consts(h)
		if len(hc[i]) == 0 {
			taken[i] = true
		}
	}
	for hop := 0; hop < hops; hop++ {
		next := map[string]bool{}
		for i := range o.Hyps {
			if taken[i] {
				continue
			}
			for k := range hc[i] {
				if cur[k] {
					taken[i] = true
					break
				}
			}
			if taken[i] {
				for k := range hc[i] {
					next[k] = true
				}
			}
		}
		for k := range next {
			cur[k] = true
		}
	}
	var out []*Term
	for i, h := range o.Hyps {
		if taken[i] {
			out = append(out, h)
		}
	}
	return out
}

func (e *Engine) renderVC(o *Obligation) (string, error) {
	o.Hyps = relevantHyps(o)
	o.Hyps = e.dropIrrelevantLemmas(o)
	syms := map[string]symInfo{}
	for _, h := range o.Hyps {
		h.collectSyms(nil, syms)
	}
	o.Goal.collectSyms(nil, syms)
	used := map[string]bool{}
	for k := range syms {
		used[k] = true
	}
	var sb strings.Builder
	sb.WriteString("(set-option :produce-models true)\n(set-logic ALL)\n")
	fmt.Fprintf(&sb, "; obligation %s\n; kind %s  at %s\n", o.Name, o.Kind, o.Pos)
	sortsNeeded := map[string]bool{}
	for _, si := range syms {
		sortTokens(si.Res, sortsNeeded)
		for _, a := range si.Args {
			sortTokens(a, sortsNeeded)
		}
	}
	for _, h := range o.Hyps {
		boundSorts(h, sortsNeeded)
	}
	boundSorts(o.Goal, sortsNeeded)
	for s := range sortsNeeded {
		used[s] = true
	}
	hide := map[string]bool{}
	if con := e.cs.Funcs[o.Func]; con != nil {
		for _, h := range con.Hide {
			hide[strings.TrimPrefix(h, "spec.")] = true
		}
		for _, r := range con.Reveal {
			used[strings.TrimPrefix(r, "spec.")] = true
		}
	}
	for _, r := range o.Reveal {
		used[strings.TrimPrefix(r, "spec.")] = true
	}
	for _, h := range o.HideSpec {
		hide[strings.TrimPrefix(h, "spec.")] = true
	}
	forms := e.spec.closure(used, hide)
	defined := map[string]bool{}
	for _, f := range forms {
		for _, d := range f.defines {
			defined[d] = true
		}
	}
	var extraSorts []string
	for s := range sortsNeeded {
		if !defined[s] && !e.spec.sorts[s] {
			extraSorts = append(extraSorts, s)
		}
	}
	sort.Strings(extraSorts)
	for _, s := range extraSorts {
		fmt.Fprintf(&sb, "(declare-sort %s 0)\n", s)
	}
	for _, f := range forms {
		sb.WriteString(f.text)
		sb.WriteString("\n")
	}
	for _, si := range sortedSyms(syms) {
		if defined[si.Name] {
			continue
		}
		if _, isSpec := e.spec.sigs[si.Name]; isSpec {
			continue
		}
		var as []string
		for _, a := range si.Args {
			as = append(as, string(a))
		}
		fmt.Fprintf(&sb, "(declare-fun %s (%s) %s)\n", smtName(si.Name), strings.Join(as, " "), si.Res)
	}
	seenHyp := map[string]bool{}
	for _, h := range o.Hyps {
		h = stripNegVariants(h, true)
		hs := h.String()
		hk := hs
		if alphaDedup && (strings.Contains(hs, "(forall ") || strings.Contains(hs, "(exists ")) {
			hk = alphaKey(h)
		}
		if seenHyp[hk] {
			continue
		}
		seenHyp[hk] = true
		sb.WriteString("(assert ")
		sb.WriteString(hs)
		sb.WriteString(")\n")
	}
	if o.ExpectSat {
		if !o.Goal.IsFalse() { // reach obligations carry Goal=false and only ask whether the hypotheses are satisfiable
			sb.WriteString("(assert ")
			o.Goal.write(&sb)
			sb.WriteString(")\n")
		}
	} else {
		sb.WriteString("(assert (not ")
		o.Goal.write(&sb)
		sb.WriteString("))\n")
	}
	sb.WriteString("(check-sat)\n(get-model)\n")
	if sb.Len() > vcSizeCap {
		return "", fmt.Errorf("VC of %s is %d bytes, above the %d cap", o.Name, sb.Len(), vcSizeCap)
	}
	return sb.String(), nil
}

type solveResult struct {
	status string
	solver string
	out    string
	dur    time.Duration
}

func runSolver(ctx context.Context, s solverSpec, file string, timeoutS int) solveResult {
	args := s.cmd(file, timeoutS)
	t0 := time.Now()
	cctx, cancel := context.WithTimeout(ctx, time.Duration(timeoutS+2)*time.Second)
	defer cancel()
	cmd := exec.CommandContext(cctx, args[0], args[1:]...)
	var buf bytes.Buffer
	cmd.Stdout = &buf
	cmd.Stderr = &buf
	_ = cmd.Run()
	out := buf.String()
	first := strings.TrimSpace(strings.SplitN(out, "\n", 2)[0])
	st := "unknown"
	switch first {
	case "sat", "unsat":
		st = first
	case "timeout":
		st = "timeout"
	default:
		if cctx.Err() != nil {
			st = "timeout"
		} else if strings.Contains(first, "error") || strings.Contains(first, "Error") {
			st = "error"
		}
	}
	return solveResult{status: st, solver: s.name, out: out, dur: time.Since(t0)}
}

// discharge runs the obligation; quick tier: first definitive answer wins; thorough: all solvers, must agree.
func (e *Engine) discharge(o *Obligation, dir string, idx int, timeoutS int, thorough bool) {
	text, err := e.renderVC(o)
	if err != nil {
		o.Status = "error"
		o.Model = err.Error()
		return
	}
	file := filepath.Join(dir, fmt.Sprintf("vc%05d.smt2", idx))
	if err := os.WriteFile(file, []byte(text), 0o644); err != nil {
		o.Status = "error"
		o.Model = err.Error()
		return
	}
	o.SMTFile = file
	ctx, cancel := context.WithCancel(context.Background())
	defer cancel()
	results := make(chan solveResult, len(solvers)+1)
	var wg sync.WaitGroup
	if o.ExpectSat && timeoutS > 3 {
		timeoutS = 3 // vacuity guards: anything but `unsat` passes, so do not wait long for a model
	}
	start := func(s solverSpec, delay time.Duration) {
		wg.Add(1)
		go func() {
			defer wg.Done()
			if delay > 0 {
				select {
				case <-time.After(delay):
				case <-ctx.Done():
					results <- solveResult{status: "cancelled", solver: s.name}
					return
				}
			}
			results <- runSolver(ctx, s, file, timeoutS)
		}()
	}
	t0 := time.Now()
	for i, s := range solvers {
		d := time.Duration(0)
		if i > 0 && !thorough {
			d = 600 * time.Millisecond
		}
		start(s, d)
	}
	nRacers := len(solvers)
	if !o.ExpectSat && len(o.Hyps) > 40 {
		// sliced racer: same obligation with only the hypotheses near the goal; only `unsat` from it counts
		so := *o
		so.Hyps = e.sliceHyps(o, 3)
		if len(so.Hyps) < len(o.Hyps) {
			if stext, err := e.renderVC(&so); err == nil {
				sfile := filepath.Join(dir, fmt.Sprintf("vc%05d.sliced.smt2", idx))
				if os.WriteFile(sfile, []byte(stext), 0o644) == nil {
					nRacers++
					wg.Add(1)
					go func() {
						defer wg.Done()
						select {
						case <-time.After(1000 * time.Millisecond):
						case <-ctx.Done():
							results <- solveResult{status: "cancelled", solver: "sliced"}
							return
						}
						r := runSolver(ctx, solvers[0], sfile, timeoutS)
						r.solver += "/sliced"
						if r.status != "unsat" {
							r.status = "unknown"
						}
						results <- r
					}()
				}
			}
		}
	}
	var all []solveResult
	final := solveResult{status: "unknown"}
	var graceTimer *time.Timer
	defer func() {
		if graceTimer != nil {
			graceTimer.Stop()
		}
	}()
	for k := 0; k < nRacers; k++ {
		r := <-results
		if r.status == "cancelled" {
			continue
		}
		all = append(all, r)
		if r.status == "sat" || r.status == "unsat" {
			if final.status != "sat" && final.status != "unsat" {
				final = r
			} else if final.status != r.status {
				final = solveResult{status: "disagree", solver: final.solver + "/" + r.solver, out: final.out + "\n---\n" + r.out}
			}
			if !thorough {
				cancel()
				break
			}
			// thorough: give the other solvers a grace period to confirm or contradict, then stop waiting
			if graceTimer == nil {
				graceTimer = time.AfterFunc(4*time.Second, cancel)
			}
		} else if final.status == "unknown" && r.status != "unknown" {
			final.status = r.status
			final.solver = r.solver
			final.out = r.out
		}
	}
	go func() { wg.Wait(); close(results) }()
	o.Status = final.status
	o.Solver = final.solver
	o.TimeS = time.Since(t0).Seconds()
	if final.status == "sat" || final.status == "disagree" {
		o.Model = final.out
	} else if final.status != "unsat" {
		var parts []string
		for _, r := range all {
			parts = append(parts, fmt.Sprintf("%s: %s", r.solver, strings.TrimSpace(strings.SplitN(r.out, "\n", 2)[0])))
		}
		o.Model = strings.Join(parts, "; ")
	}
}

func (e *Engine) dischargeAll(obls []*Obligation, dir string, timeoutS int, thorough bool, workers int) {
	type job struct {
		i int
		o *Obligation
	}
	jobs := make(chan job)
	var wg sync.WaitGroup
	for w := 0; w < workers; w++ {
		wg.Add(1)
		go func() {
			defer wg.Done()
			for j := range jobs {
				e.discharge(j.o, dir, j.i, timeoutS, thorough)
			}
		}()
	}
	for i, o := range obls {
		jobs <- job{i, o}
	}
	close(jobs)
	wg.Wait()
}

func boundSorts(t *Term, out map[string]bool) {
	for _, b := range t.Bound {
		sortTokens(b.S, out)
	}
	for _, a := range t.Args {
		boundSorts(a, out)
	}
}
