#!/usr/bin/env python3
"""Mutation campaign: small operator mutations of /repo's non-test sources, each on its own scratch copy.
A mutant that still builds and passes the existing test suite is run through the checks of the properties that
concern its package; a mutant that survives both is printed as SURVIVED (an equivalent mutant, or a hole to look at).
usage: mutcampaign.py <package dir relative to /repo> <how many> <seed> [check ids...]"""
import os, re, random, subprocess, sys, shutil, tempfile, json, concurrent.futures as cf

ENV = dict(os.environ, GOFLAGS="-mod=mod", GOPROXY="off", GOSUMDB="off", GOTOOLCHAIN="local")
OPS = [(r'<=', '<'), (r'>=', '>'), (r'(?<![<>=!-])<(?![<=-])', '<='), (r'(?<![<>=!-])>(?![>=])', '>='), (r'==', '!='), (r'!=', '=='),
       (r'&&', '||'), (r'\|\|', '&&'), (r'(?<![+])\+(?![+=])', '-'), (r'(?<![-<])-(?![-=>])', '+'), (r'<<', '>>'), (r'>>', '<<'),
       (r'(?<![&])&(?![&^=])', '|'), (r'(?<![|])\|(?![|=])', '&'), (r'\+\+', '--'), (r'\+=', '-='), (r'-=', '+='),
       (r'\b1\b', '2'), (r'\b0\b', '1'), (r'\b2\b', '3'), (r'\b3\b', '4'), (r'\b4\b', '5'), (r'\b7\b', '8'), (r'\b8\b', '7'), (r'\b16\b', '15'), (r'\b31\b', '32'), (r'\b32\b', '31')]

def candidates(pkg):
    out = []
    d = os.path.join('/repo', pkg)
    for fn in sorted(os.listdir(d)):
        if not fn.endswith('.go') or fn.endswith('_test.go') or fn.startswith('zz_'):
            continue
        lines = open(os.path.join(d, fn)).read().split('\n')
        infunc = False
        for ln, line in enumerate(lines):
            if line.startswith('func '):
                infunc = True
            if line.startswith('}'):
                infunc = False
            code = line.split('//')[0]
            if not infunc or not code.strip() or code.strip().startswith(('import', 'package', '/*', '*')) or '"' in code or 'panic(' in code or 'fmt.' in code:
                continue
            for pat, rep in OPS:
                for m in re.finditer(pat, code):
                    out.append((os.path.join(pkg, fn), ln, m.start(), m.end(), rep))
            # statement deletion: a call or an assignment on a line of its own
            st = code.strip()
            if re.match(r'^[A-Za-z_][\w\.\[\]\*\+\-: ]*(=|\+=|-=|\|=|&=|\+\+|--)', st) or re.match(r'^[A-Za-z_][\w\.]*\(.*\)$', st):
                if not st.endswith('{') and ':=' not in st:
                    out.append((os.path.join(pkg, fn), ln, 0, len(line), '// deleted: ' + st))
            # condition negation: if c { -> if !(c) {
            m = re.match(r'^(\s*if )([^;{]+)( \{)$', code)
            if m:
                out.append((os.path.join(pkg, fn), ln, 0, len(line), m.group(1) + '!(' + m.group(2) + ')' + m.group(3)))
    return out

def run(cmd, cwd, timeout):
    try:
        p = subprocess.run(cmd, cwd=cwd, env=ENV, capture_output=True, text=True, timeout=timeout)
        return p.returncode, p.stdout + p.stderr
    except subprocess.TimeoutExpired:
        return 124, 'timeout'

def one(mut, checks):
    f, ln, a, b, rep = mut
    d = tempfile.mkdtemp(prefix='mutc.', dir='/tmp')
    try:
        subprocess.run(['rsync', '-a', '--exclude', '.git', '/repo/', d + '/'], check=True)
        p = os.path.join(d, f)
        lines = open(p).read().split('\n')
        old = lines[ln]
        lines[ln] = old[:a] + rep + old[b:]
        open(p, 'w').write('\n'.join(lines))
        desc = f"{f}:{ln+1}: `{old.strip()}` -> `{lines[ln].strip()}`"
        rc, out = run(['go', 'build', './...'], d, 120)
        if rc != 0:
            return desc, 'no-build', ''
        rc, out = run(['go', 'vet', '-tags', 'verif', './...'], d, 120)
        rc, out = run(['go', 'test', '-count=1', '-timeout', '100s', './...'], d, 150)
        if rc != 0:
            return desc, 'killed-by-tests', ''
        killed = []
        env = dict(ENV, VERIF_REPO=d, VERIF_OUT=os.path.join(d, '_out'))
        for c in checks:
            try:
                pr = subprocess.run(['/verif/bin/govc', 'check', '-p', c], cwd='/verif', env=env, capture_output=True, text=True, timeout=900)
                o = pr.stdout + pr.stderr
            except subprocess.TimeoutExpired:
                o = 'VIOLATION timeout'
            if 'VIOLATION' in o:
                first = [l for l in o.split('\n') if l.startswith('VIOLATION')][:1]
                killed.append(c + ':' + (first[0].split('obligation=')[-1][:90] if first and 'obligation=' in first[0] else (first[0][-80:] if first else '?')))
                break
        if killed:
            return desc, 'killed-by-check', '; '.join(killed)
        return desc, 'SURVIVED', ''
    finally:
        shutil.rmtree(d, ignore_errors=True)

def main():
    pkg, n, seed = sys.argv[1], int(sys.argv[2]), int(sys.argv[3])
    checks = sys.argv[4:]
    cands = candidates(pkg)
    random.Random(seed).shuffle(cands)
    cands = cands[:n]
    stats = {}
    with cf.ThreadPoolExecutor(max_workers=4) as ex:
        for desc, verdict, info in ex.map(lambda m: one(m, checks), cands):
            stats[verdict] = stats.get(verdict, 0) + 1
            print(f"{verdict:16s} {desc}  {info}", flush=True)
    print('SUMMARY', json.dumps(stats))

main()
