#!/usr/bin/env python3
"""Re-run every seeded property-breaking change in /verif/seeded against the check of its property, each on its own
scratch copy of /repo (VERIF_REPO / VERIF_OUT), four at a time; a seed that raises no VIOLATION is printed as MISSED."""
import os, re, subprocess, shutil, tempfile, concurrent.futures as cf, glob, sys
ENV = dict(os.environ, GOFLAGS="-mod=mod", GOPROXY="off", GOSUMDB="off", GOTOOLCHAIN="local")
def one(d):
    sid = os.path.basename(d)
    m = re.match(r'(C\d\d)', sid)
    if not m or not os.path.exists(os.path.join(d, 'patch.diff')):
        return sid, 'skip', ''
    prop = m.group(1)
    t = tempfile.mkdtemp(prefix='seedall.', dir='/tmp')
    try:
        subprocess.run(['rsync', '-a', '--exclude', '.git', '/repo/', t + '/'], check=True)
        p = subprocess.run(['patch', '-p1', '-s', '-i', os.path.join(d, 'patch.diff')], cwd=t, capture_output=True, text=True)
        if p.returncode != 0:
            return sid, 'patch-does-not-apply', p.stdout[-200:]
        env = dict(ENV, VERIF_REPO=t, VERIF_OUT=os.path.join(t, '_out'))
        try:
            r = subprocess.run(['/verif/bin/govc', 'check', '-p', prop], cwd='/verif', env=env, capture_output=True, text=True, timeout=1500)
            o = r.stdout + r.stderr
        except subprocess.TimeoutExpired:
            return sid, 'timeout', ''
        v = [l for l in o.split('\n') if l.startswith('VIOLATION')]
        if v:
            kinds = 'bounded-only' if all('bounded_' in l for l in v) else 'deductive'
            return sid, 'caught', f"{len(v)} line(s), {kinds}"
        return sid, 'MISSED', o.strip().split('\n')[-1][:150]
    finally:
        shutil.rmtree(t, ignore_errors=True)
dirs = sorted(d for d in glob.glob('/verif/seeded/C*') if os.path.isdir(d))
if len(sys.argv) > 1:
    dirs = [d for d in dirs if os.path.basename(d) in sys.argv[1:]]
stats = {}
with cf.ThreadPoolExecutor(max_workers=4) as ex:
    for sid, verdict, info in ex.map(one, dirs):
        stats[verdict] = stats.get(verdict, 0) + 1
        print(f"{sid:6s} {verdict:22s} {info}", flush=True)
print('SUMMARY', stats)
