#!/usr/bin/env python3
import sys,re,subprocess
src=open(sys.argv[1]).read().split("\n")
out=["(set-option :produce-unsat-cores true)"]
n=0; names={}
for ln in src:
    if ln.startswith("(assert ") and ln.endswith(")"):
        n+=1; nm=f"a{n}"; names[nm]=ln
        out.append(f"(assert (! {ln[8:-1]} :named {nm}))")
    elif ln.startswith("(get-model"): out.append("(get-unsat-core)")
    elif ln.startswith("(set-option :produce-models"): pass
    else: out.append(ln)
open("/tmp/core.smt2","w").write("\n".join(out))
r=subprocess.run(["z3-new","-T:30","/tmp/core.smt2"],capture_output=True,text=True).stdout
print(r.split("\n")[0])
for nm in re.findall(r"a\d+", r.split("\n",1)[1] if "\n" in r else ""):
    print(nm, names[nm][:400])
