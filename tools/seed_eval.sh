#!/bin/bash
# usage: seed_eval.sh <Cxx> [checks...]   — confirm a seeded change and run the checks against it.
# 1. scratch worktree of /repo HEAD: tests pass with the patch, demo fails with it and passes without it
# 2. apply to /repo, run the checks, undo.
set -u
id=$1; shift
src=/tmp/wt_$id/SEED
[ -d /verif/seeded/$id ] && src=/verif/seeded/$id
[ -f $src/patch.diff ] || { echo "no patch for $id"; exit 2; }
if [ -n "$(git -C /repo status --porcelain)" ]; then echo "refusing: /repo has uncommitted changes (the undo step would wipe them); commit them first"; exit 2; fi
export GOFLAGS=-mod=mod GOPROXY=off GOSUMDB=off GOTOOLCHAIN=local
ev=/tmp/ev_$id
git -C /repo worktree remove --force $ev >/dev/null 2>&1
git -C /repo worktree add --detach -q $ev HEAD || exit 2
pkgdir=$(head -1 $src/zz_demo_test.go | grep -o '[a-zA-Z0-9_/-]*' | grep -E '^(xmss|dilithium|misc|common|qrl|qrllib-js.*)$' | head -1)
[ -z "$pkgdir" ] && pkgdir=$(grep -m1 '^package ' $src/zz_demo_test.go | awk '{print $2}' | sed 's/_test$//')
case $pkgdir in dilithiumjs|xmssjs) pkgdir=qrllib-js/$pkgdir;; esac
res_apply=fail; res_tests=fail; res_demo_with=unknown; res_demo_without=unknown
( cd $ev && git apply $src/patch.diff ) && res_apply=ok
( cd $ev && go build ./... && go test -vet=off -count=1 ./... >/tmp/ev_$id.tests 2>&1 ) && res_tests=pass
cp $src/zz_demo_test.go $ev/$pkgdir/zz_demo_test.go
( cd $ev && go test -vet=off -count=1 -timeout 300s -run 'TestDemo$' ./$pkgdir/ >/tmp/ev_$id.demo1 2>&1 ) && res_demo_with=pass || res_demo_with=fail
( cd $ev && git checkout -q -- . && go test -vet=off -count=1 -timeout 300s -run 'TestDemo$' ./$pkgdir/ >/tmp/ev_$id.demo2 2>&1 ) && res_demo_without=pass || res_demo_without=fail
git -C /repo worktree remove --force $ev
echo "confirm $id: apply=$res_apply tests_with_patch=$res_tests demo_with_patch=$res_demo_with demo_without_patch=$res_demo_without pkg=$pkgdir"
# checks against /repo with the patch applied
checks="$@"; [ -z "$checks" ] && checks=$id
# the checks below run against a PATCHED tree: keep the evidence of the unchanged tree aside and put it back afterwards
evsave=$(mktemp -d /tmp/evsave.XXXXXX); cp /verif/evidence/*.json $evsave/ 2>/dev/null
git -C /repo apply $src/patch.diff || { echo "cannot apply to /repo"; exit 2; }
out=""
for c in $checks; do
  r=$(cd /verif && ./bin/govc check -p $c 2>&1 | grep -E "^VIOLATION|^$c:" | cut -c1-230)
  n=$(echo "$r" | grep -c '^VIOLATION')
  echo "check $c on seeded $id: $n violation line(s)"
  echo "$r" | head -4
done
git -C /repo checkout -- .
cp $evsave/*.json /verif/evidence/ 2>/dev/null; rm -rf $evsave
git -C /repo status --short | head -3
