#!/usr/bin/env python3
"""Generates /verif/MANIFEST.json (kept valid at all times) from the table below."""
import json, sys
ALL = ["C%02d" % i for i in range(1, 17)]
GO = "GOFLAGS=-mod=mod GOPROXY=off GOSUMDB=off GOTOOLCHAIN=local"
checks = {}
def add(pid, cat, text, note, technique, design):
    checks[pid] = {
        "property_id": pid,
        "quick_cmd": f"./bin/govc check -p {pid} -tier quick",
        "thorough_cmd": f"./bin/govc check -p {pid} -tier thorough",
        "evidence_file": f"/verif/evidence/{pid}.json",
        "replay_cmd_template": "./bin/govc replay {path}",
        "engine": "govc",
        "level_claimed": {"category": cat, "text": text, "design_ref": design},
        "level_note": note,
        "technique": technique,
    }

add("C12", "proof",
    "Contracts on the real reduce.go / rounding.go / ntt.go / poly.go functions (requires/ensures/loop invariants in dilithium/zz_contracts_verif.go) discharged for all inputs by SMT over the exact machine-integer encoding: Montgomery and reduce32 congruences and bounds on their whole domains, Power2Round/Decompose/MakeHint/UseHint equal to the specification-level definitions for every residue, hint lemmas, the norm test equals the centred absolute value comparison, NTT/invNTT overflow-freedom and coefficient bounds for every input. NTT product = negacyclic product: linear-form typing of the real bodies + exhaustive evaluation of the real code on the 256x256 basis pairs.",
    "Trusted: govc VC generator, solvers, spec prelude (spec/10_dilithium.smt2 written from the Dilithium specification), Go semantics. The step 'a bilinear map is determined by its values on a basis' is not mechanised. zetas table facts are read from the initialiser in the working tree.",
    "contract-based deductive verification: VCs generated from the typed Go AST of /repo, discharged by z3/cvc5; finite table facts by exhaustive evaluation of the real code",
    "DESIGN.md section 4 C12")

add("C13", "proof",
    "Contracts on the real packers/unpackers (polyEta/T1/T0/Z/W1 Pack and Unpack), key layouts (packPk/unpackPk/packSk/unpackSk) and unpackSig: each states the FIPS 204 bit-packing relation 'packed bytes read as a little-endian integer = coefficient offsets read as base-2^b digits' per block, for every value in range and every block position (symbolic block index), plus lemmas that in-range digits are unique (unpack(pack(v)) = v, pack(unpack(b)) = b) and unpackSig accepts exactly the canonical hint encodings. Discharged for all inputs.",
    "Key level: the lemma functions verifLemmaPkRoundTrip / verifLemmaSkRoundTrip prove unpackPk(packPk(rho,t1)) = (rho,t1) and unpackSk(packSk(...)) = the same six components on the real packers, for every value in range (digit-uniqueness lemmas in scalar form). Signature level: packSig is proved to write the challenge, the z packing and the hint encoding (cumulative count bytes, strictly increasing positions per row, zero padding), unpackSig is proved to decode exactly the listed positions, and the lemma function verifLemmaSigRoundTrip proves unpackSig(packSig(c,z,h)) = (c,z,h) with acceptance for every in-range z and every binary hint vector of weight <= omega. The converse, packSig(unpackSig(s)) = s byte for byte for every accepted s, is proved by the lemma function verifLemmaSigReencode: unpackSig additionally proves that the decoded hint rows have exactly the weights the count bytes announce (weight lemmas by induction), and two strictly increasing enumerations of the same set over the same index range are equal (lemmas L_adj_mono, L_enum_eq by induction), so the position bytes, the count bytes, the zero padding, the z part (digit uniqueness) and the challenge all agree. Trusted: govc, solvers, spec reading of FIPS 204 algorithms 16-21.",
    "contract-based deductive verification: VCs from the typed Go AST of /repo, exact machine-integer encoding with arithmetic bit-operation identities, z3/cvc5",
    "DESIGN.md section 4 C13")
add("C14", "proof",
    "Zero-annotation safety obligations (index, slice bounds, nil dereference, division by zero, make size, negative shift, signed 64-bit overflow, XOF write-after-read) plus thin contracts for every function in the call graph of the listed entry points, for slices of ANY length and content; explicit refusals: every reachable panic statement must be one of the declared string refusals (Dilithium Verify/Open declare none); frame: entry points assign nothing caller-visible; termination: a variant for every counted loop. The check found a genuine out-of-range crash for 4 GiB messages (fixed, see known_findings.json).",
    "Assumed: termination of the rejection-sampling loops (XOF-dependent), non-nil pointer arguments, no object >= 2^40 bytes, x/crypto/sha3 model (T4), strings.Split/reflect.DeepEqual contracts (T5), NewWOTSParams (float code) and GetEndian (unsafe) trusted with contracts confirmed by exhaustive runs of the real functions.",
    "contract-based deductive verification: safety VCs generated without annotation for every fault class of the Go spec, discharged by z3/cvc5",
    "DESIGN.md section 4 C14")
add("C11", "proof",
    "Contracts on GetXMSSAddressFromPK / GetLegacyXMSSAddressFromPK / GetDilithiumAddressFromPK (address = descriptor bytes || tail of SHAKE-256 resp. SHA-256 digest of the full key, hashes uninterpreted), IsValidXMSSAddress / IsValidDilithiumAddress / IsValidLegacyXMSSAddress as exact predicates (legacy: format nibble and 4-byte checksum = SHA-256 of the first 35 bytes), descriptor decode/encode contracts, and lemmas: descriptor round trip for all field values, own-scheme validity and other-scheme invalidity.",
    "Hashes are uninterpreted functions of their input bytes (T4); reflect.DeepEqual assumed contract; an 'XMSS public key' is read as 'descriptor signature-type nibble = XMSS' (DESIGN.md C11 note).",
    "contract-based deductive verification: functional contracts over symbolic byte arrays with uninterpreted hashes, z3/cvc5",
    "DESIGN.md section 4 C11")

add("C15", "proof",
    "Frame and purity obligations decided by an interprocedural effects analysis on go/ssa of the working tree: (E1) no library function writes package-level memory and no mutable package-level variable exists, (E2) the stateless API writes none of its arguments (receiver included), (E3) each such call is a function of its arguments: no randomness (randomizedSigning is provably constant false, seed==nil is provably dead), no time, no map-iteration order, no goroutines, no unsafe beyond misc.GetEndian, (E4) XMSS methods write only memory reachable from their receiver and constructors return memory reachable from no argument or global. With the Go memory model's DRF theorem these exclude data races for the property's call patterns and give history-independence. SMT frame obligations of the C15-tagged entry points are checked as well.",
    "No schedule is executed and no race detector is run (DESIGN.md section 4 C15): data-race freedom is derived from frame conditions under the assumed Go memory model (T9); thread-safety/determinism of the standard library and x/crypto are assumed; js.Object plumbing excluded.",
    "contract-based verification of frame/purity clauses: interprocedural write/read/purity analysis on go/ssa (effects back end) plus SMT frame obligations",
    "DESIGN.md section 4 C15")
add("C02", "proof",
    "Index automaton as contracts on the real xmssFastUpdate, xmssFastSignMessage, (*XMSS).SetIndex, (*XMSS).Sign, XMSSFastGenKeyPair, initializeTree with the object invariant xmssInv (sk length, parameter set, buffer shapes, idx <= 2^h): refusals 'index too high'/'cannot rewind' occur exactly under the stated conditions and leave all caller-visible memory unchanged (frame obligation at every panic exit); a successful Sign embeds the old index in the signature and increments it by exactly one (byte-level big-endian arithmetic proved exactly); sk[4:132], seed, descriptor are in no assigns set. Every history follows by induction over the per-operation contracts.",
    "BDS traversal functions (bdsRound, bdsTreeHashUpdate, treeHashSetup) are not symbolically executed: their assigns clauses (only *bdsState / the node buffer) and purity are discharged by the effects back end; NewBDSState's shape contract is trusted (append of pointers) and exercised by the label run of C01. If hMsg refuses an over-long message the index has already advanced (safe direction).",
    "contract-based deductive verification: per-operation contracts + object invariant, VCs from the typed Go AST, z3/cvc5; frames of trusted callees by go/ssa effects analysis",
    "DESIGN.md section 4 C02")

add("C16", "proof",
    "Contracts on the six string wrappers of qrllib-js: for hex input of the exact length, with and without a 0x prefix (four prefix combinations for the verifiers), the wrapper's result equals the core function applied to the decoded bytes: address validators and address derivations against the cores' functional contracts (SHAKE uninterpreted), verifiers against the uninterpreted function that the cores' `pure` contracts introduce (purity discharged by the effects back end); for non-hex input false / empty string; no run-time fault for any string. The check found that the xmssjs wrappers rejected 0x-prefixed input (fixed, known_findings.json).",
    "Assumed contracts on encoding/hex.DecodeString/EncodeToString and strings.HasPrefix (T5); the core's explicit refusals (XMSS size/type guards) propagate through XMSSVerify / GetXMSSAddressFromPK.",
    "contract-based deductive verification: functional contracts over symbolic strings, assumed library contracts, z3/cvc5; purity by go/ssa effects analysis",
    "DESIGN.md section 4 C16")

add("C09", "proof",
    "Recovery is proved on lemma functions (real Go, build tag verif, xmss/zz_lemmas_verif.go and dilithium/zz_lemmas_verif.go) that compose the real constructors and exporters: NewXMSSFromExtendedSeed(k.GetExtendedSeed()) yields equal sk, seed, descriptor fields, height, hash function and traversal state as k for every seed, even height 4..30 and hash id; a key from NewXMSSFromHeight / dilithium.New is regenerated by the seed it stores; NewDilithiumFromSeed(d.GetSeed()) and NewDilithiumFromHexSeed(d.GetHexSeed()[2:]) give equal pk, sk, seed. The arguments reaching initializeTree / cryptoSignKeypair are proved equal (descriptor codec arithmetic, 51-byte layout, hex encode/decode); equal arguments give equal keys because those functions carry `pure` contracts whose determinism is discharged by the effects back end. GetPK's layout contract makes PK and address functions of the compared fields.",
    "Mnemonic legs: verifLemmaRecoverFromMnemonic (XMSS and Dilithium) rebuild the key from MnemonicTo(Extended)SeedBin((Extended)SeedBinToMnemonic(seed)) — GetMnemonic and NewDilithiumFromMnemonic are one-line wrappers of exactly these calls and are verified inline — through exported lemma functions misc.VerifLemma(Extended)SeedRoundTrip whose byte-wise conclusion dec(enc(b))[q] = b[q] is a discharged obligation. Assumed: encoding/hex contracts (T5), crypto/rand.Read fills the buffer with arbitrary bytes, hashes deterministic (T4). 'Same signatures' follows from equal key state plus determinism of signing (C08/C07).",
    "contract-based deductive verification of product-program lemma functions; determinism (purity) of key generation by go/ssa effects analysis",
    "DESIGN.md section 4 C09")

add("C01", "other",
    "Deductive obligations (all inputs) on the real signing and verification paths: memory safety for every length, signature layout (length 2180+32h, index field = consumed index), index automaton, frames; plus a bounded, exhaustive-over-indices evaluation of the BDS traversal invariant on the REAL traversal code with node labels (every index of every even height 4..20 in the quick tier, ..24 thorough, ..30 with VERIF_FULL=1; only hashH/genLeafWOTS bodies are spliced mechanically on each run) and, with the real hashes, sign->verify at every index of height 4 (6 thorough) for all three hash functions.",
    "Level 'other' = deductive parts + bounded stand-in. The traversal invariant is NOT proved for symbolic height. The functional WOTS+/L-tree/Merkle-fold contracts are discharged on the verification side (see C04) and for wotsSign / wOTSPKGen on the signing side, with the chain composition lemma; the lemma functions composing them are discharged for all inputs: 'the public key recovered from a WOTS+ signature of any message is the generated one' (verifLemmaWotsSignThenRecover) and 'the leaf the verifier recomputes from a signature equals the leaf genLeafWOTS computes for that address' (verifLemmaLeafFromSignature, genLeafWOTS under a functional contract). What remains bounded is the BDS part: the authentication path handed out is the sibling path and the stored root is the Merkle root. Of the five BDS helpers, the bodies of treeHashMinHeightOnStack and treeHashUpdate are verified (memory safety, stack bookkeeping, frame, termination) under the local stack discipline as precondition; that precondition is not proved at their call sites (bdsTreeHashUpdate, bdsRound, treeHashSetup remain trusted) but is observed in every state of the label run. Evidence lists the bounded runs under 'bounded', outside obligations/discharged.",
    "contract-based deductive verification of the real code for safety/layout/index clauses; bounded run-time evaluation of the stated traversal contract where no inductive proof is attempted",
    "DESIGN.md section 4 C01")
add("C08", "other",
    "Deductive: purity (`pure` + `reads addr[0:3]` clauses discharged by the go/ssa effects back end) and frames of the traversal step functions, identity of a jump to the current index (lemma function), identical evolution of the index on both paths; both ways of advancing perform for every index t exactly the pair bdsRound(t), bdsTreeHashUpdate in lockstep (ghost call counters: Sign one pair exactly when idx < 2^h-1, SetIndex exactly newIdx-idx pairs at leaves idx, idx+1, ...) with arguments that are the same functions of the secret key fields (anchored assertions at both call sites). Bounded stand-in for the step-equivalence lemma: with the real hashes the complete traversal state and the next signature at every index of height 4 (4,6 thorough), all three hash functions, agree between signing, one jump and two jumps.",
    "What is not mechanised is the induction 'equal sequences of pure steps from equal states give equal states' (the product-program lemma in xmss/zz_lemmas_verif.go stays undecided and is not claimed); for that step path independence rests on the bounded differential run.",
    "contract-based verification of purity/frame clauses (go/ssa) and a lemma function (SMT); bounded differential run of the real code as labelled stand-in",
    "DESIGN.md section 4 C08")

add("C05", "proof",
    "Contracts on the real cryptoSignVerify, unpackSig, polyVecLChkNorm, cryptoSignOpen, Verify, Open: acceptance implies (a) the hint trailer is canonical (unpackSig returns 0 exactly on canonical encodings: non-decreasing counts <= omega, strictly increasing positions per row, zero padding), (b) every coefficient of the response decoded from the signature bytes has centred absolute value < gamma1-beta, (c) all 32 challenge bytes equal SHAKE-256(mu || packed w1') with mu = SHAKE-256(SHAKE-256(pk)[0:32] || m)[0:64] and the packed buffer the exact nibble packing of the recomputed w1'; errors are never turned into acceptance; conversely (`return k assert` clauses) verification returns false only when the hint section is not canonical, or some decoded response coefficient has centred absolute value >= gamma1-beta, or a challenge byte differs from the recomputed one; Open returns non-nil exactly when the signature part verifies on the message part and then returns exactly that message; z-packing is canonical (lemma L_canon_z).",
    "'Any flipped bit / other message / other key is rejected' is a collision-resistance statement and is not claimed (DESIGN.md section 9). unpackSig's decoded-hint characterisation (exactly the listed positions become 1) is proved; the re-encoding lemma for the hint trailer is not. Clauses (c) are internal postconditions (`exit` clauses over the function's locals). SHAKE model T4.",
    "contract-based deductive verification: functional contracts with uninterpreted hashes on the real verification code, z3/cvc5",
    "DESIGN.md section 4 C05")

add("C04", "proof",
    "Verify_lib <=> Verify_spec for every input, with the hash primitives uninterpreted: xmssVerifySig is proved to return true exactly when the message fits the 32-bit length arithmetic and the first 32 bytes of pk equal the root computed by a CLOSED-FORM specification of XMSS verification (RFC 8391 Algorithm 14 with the QRL conventions) as a function of the inputs only: message hash H_msg(R || root || toByte(idx,32), M); WOTS+ public key from the signature (base-w digits of the hash and of the left-shifted checksum, chain i from digit to w-1 under OTS address idx, recursive spec `chain`); L-tree leaf (recursive spec `lnode`, odd nodes carried up); Merkle fold of leaf, index and authentication path (recursive spec `fold`). Each callee (hMsg, CalcBaseW, genChain, wotsPKFromSig, lTree, validateAuthPath, hashF, hashH, prf, coreHash) carries its functional contract, the composition is proved with anchored assertions in xmssVerifySig, and the congruence facts the composition needs (the specs depend on addresses only through words 0..4 and on byte strings only through their contents) are lemmas proved by induction. Verify / VerifyWithCustomWOTSParamW: acceptance implies a supported hash id (0..2), a height field consistent with the signature length (len = 4+32+keySize+32h, h = 2*(pk[1]&15) >= 4), and equals xmssVerifySig on exactly (hash id, WOTS parameters for w, message, signature, pk[3:67], h). The check found that a public key naming hash id 3..15 with a zero root was accepted for any message (fixed, known_findings.json).",
    "Collision-type claims ('any flipped bit / other key is rejected') are cryptographic, not functional, and are not claimed. Hashes are uninterpreted functions of their input bytes (T4). The specification functions are written from RFC 8391 in spec/00_core.smt2 and are themselves trusted as the statement of 'what the scheme defines'.",
    "contract-based deductive verification: functional contracts with recursive specification functions and induction lemmas on the real verification code, uninterpreted hashes, z3/cvc5; purity by go/ssa effects analysis",
    "DESIGN.md section 4 C04")
add("C06", "other",
    "Deductive (all inputs): each hash construction, address/toByte serialisation, seed derivation, key-generation seed expansion and layout, and the signing-side wiring equals its RFC 8391/QRL specification over uninterpreted hash primitives; Verify == VerifyWithCustomWOTSParamW(16). Bounded (labelled): byte-identity of public key and every signature with an independent full-Merkle-tree reference implementation for heights 4 (quick) / 4,6,8 (thorough), three hash functions; label run of the traversal as in C01.",
    "Level 'other' = proved constructions, wiring and recursive specifications (WOTS+ chains, base-w digits and checksum, L-tree, Merkle fold; verification side complete, signing side wotsSign / wOTSPKGen) + bounded whole-object comparison. Not under a recursive specification: the tree nodes computed by treeHashSetup / the BDS traversal.",
    "contract-based deductive verification of the hash constructions and wiring on the real code; bounded differential run against an independent reference implementation, labelled bounded",
    "DESIGN.md section 4 C06")

add("C10", "proof",
    "Contracts on the real binToMnemonic / mnemonicToBin and their four sized front ends plus four lemma functions (misc/zz_lemmas_verif.go): the encoder's phrase is the word list entries of the big-endian 12-bit groups joined by single blanks (any length divisible by 3); the decoder returns exactly the bytes whose 12-bit groups are the word indices, refuses (explicit panic) exactly when the word count is odd, some token is not a list word, or the size is not 48/51; dec(enc(b)) = b for every 48- and 51-byte string (hence injectivity) and enc(dec(p)) = p for every phrase the decoder accepts, all as discharged obligations; the 4096-word table is checked exhaustively (distinct, non-empty, lower-case, blank-free).",
    "Strings are abstract (sort Str): fmt.Fprint/bytes.Buffer, strings.Split/Join and map semantics are assumed (T5, spec/20_strings.smt2). Spacing/case strictness is derived from the token-level refusal under those assumptions, not proved on bytes.",
    "contract-based deductive verification with loop invariants over the 12-bit group view, lemma functions for the round trips, exhaustive table check of the word list",
    "DESIGN.md section 4 C10")

add("C07", "other",
    "Deductive (all inputs): the signer cryptoSignSignature is verified for safety and ranges on every path of its rejection loop and `after` assertions pin the specification's acceptance conditions with exact bounds (||z|| < gamma1-beta, ||LowBits(w-cs2)|| < gamma2-beta, ||ct0|| < gamma2, hint weight <= omega, canonical z encoding); arithmetic components equal their specification functions (C12), encodings lossless and canonical (C13); cryptoSign is a function of (message, key) and re-signing after other calls gives the identical signature (effects back end + lemma function verifLemmaSignAgain). Bounded (labelled): byte identity of public key, secret key and deterministic signature with an independent specification-level implementation (schoolbook arithmetic mod q, NTT-domain matrix inverted by direct interpolation) on VERIF_SEED-derived seeds and messages for a fixed time budget, with boundary cases recognised and counted.",
    "Level 'other' = proved components + bounded whole-object comparison. Samplers are under functional contract: ExpandMask (polyUniformGamma1 = 20-bit unpacking of SHAKE-256(seed || nonce LE)), SampleInBall (polyChallenge = recursive specification `sib` of the SHAKE-256 stream incl. the refill path), rejUniform / rejEta at the candidate level (acceptance test, value map, order), absorbed input and stream-window invariants of polyUniform / polyUniformEta (found the refill-offset defect F3, fixed). Not under functional contract: composition of the candidate-level sampler contracts into 'polynomial = first 256 accepted candidates of the stream', NTT-domain product = ring product beyond C12's table checks, composition into whole-key/whole-signature equality. Termination of rejection loops assumed.",
    "contract-based deductive verification of the real signer (safety, exact rejection bounds as anchored assertions, purity); bounded differential run against an independent specification-level implementation, labelled bounded",
    "DESIGN.md section 4 C07")
add("C03", "other",
    "Deductive (all inputs): framing lemma functions over the real Seal/Sign/Open/Extract code (Seal(m) = Sign(m)||m; ExtractSignature/ExtractMessage return exactly those parts; Open(Seal(m)) = m exactly when Verify(m, Sign(m)) holds); signer-side acceptance conditions with exact bounds (C07) and the coefficient-level hint lemmas (UseHint(MakeHint(z,r),r) = HighBits(r+z); the library's hint code equals MakeHint under the signer's norm conditions). Bounded (labelled): Verify(m, Sign(m), pk) on whole signatures for VERIF_SEED-derived seeds and message lengths 0..5000 (real signer and verifier plus an independent specification-level verifier), counting rejection-loop iterations of each kind.",
    "Level 'other': the ring identity that makes verification recompute the signer's w1 (Az - c*t1*2^d = w - c*s2 + c*t0 over NTT-domain arithmetic) is not mechanised; whole-signature sign->verify is a bounded run.",
    "contract-based deductive verification (lemma functions for framing, anchored assertions in the signer, coefficient lemmas); bounded run of the real signer/verifier as labelled stand-in for the ring-algebra step",
    "DESIGN.md section 4 C03")

reasons = {}
for p in ALL:
    if p not in checks:
        reasons[p] = "check not built yet (work in progress, see DESIGN.md section 8 build order)"

m = {
 "version": 1,
 "setup_cmd": f"cd /verif/govc && {GO} go build -o /verif/bin/govc .",
 "hooks": {
  "guard": "verif",
  "enable": "<pkg>/zz_contracts_verif.go (contracts: comments only, no symbol) and <pkg>/zz_lemmas_verif.go (lemma functions: real Go composing library functions, never called) carry '//go:build verif'; govc loads /repo with -tags verif; without the tag neither file is compiled",
  "baseline_off_cmd": "cd /repo && go test -mod=mod -vet=off -count=1 -timeout 25m ./...",
  "source_commits": [],
  "add_only": True
 },
 "engines": [{"name": "govc", "path": "/verif/govc", "serves_properties": sorted(checks), "kind_free_text": "contract-based deductive verifier for Go written for this task: weakest-precondition style VC generation by symbolic execution of the typed AST (go/packages + go/types) of /repo's working tree, contracts in Gobra-style comments, SMT back ends z3 5.1 / cvc5 1.0 / z3 4.8 raced per obligation; auxiliary back ends: table (exhaustive finite evaluation of real code), linform, effects (go/ssa), bounded (labelled)"}],
 "checks": [checks[p] for p in sorted(checks)],
 "notes": "See DESIGN.md. Every check rebuilds its obligations from /repo's working tree on each run.",
 "not_applicable": [{"property_id": p, "reason": reasons[p]} for p in sorted(reasons)],
}
import subprocess
try:
    m["hooks"]["source_commits"] = subprocess.check_output(["git","-C","/repo","log","--format=%H","--grep=^verif"],text=True).split()
except Exception: pass
json.dump(m, open("/verif/MANIFEST.json","w"), indent=1)
print("checks:", sorted(checks), "n/a:", sorted(reasons))
