#!/usr/bin/env python3
"""Generates /verif/MANIFEST.json (kept valid at all times) from the table below."""
import json, sys
ALL = ["C%02d" % i for i in range(1, 17)]
GO = "GOFLAGS=-mod=mod GOPROXY=off GOSUMDB=off GOTOOLCHAIN=local"
checks = {}
def add(pid, cat, text, note, technique, design):
    checks[pid] = {
        "property_id": pid,
        "quick_cmd": f"./bin/govc check -p {pid} -tier quick",
        "thorough_cmd": f"./bin/govc check -p {pid} -tier thorough",
        "evidence_file": f"/verif/evidence/{pid}.json",
        "replay_cmd_template": "./bin/govc replay {path}",
        "engine": "govc",
        "level_claimed": {"category": cat, "text": text, "design_ref": design},
        "level_note": note,
        "technique": technique,
    }

add("C12", "proof",
    "Contracts on the real reduce.go / rounding.go / ntt.go / poly.go functions (requires/ensures/loop invariants in dilithium/zz_contracts_verif.go) discharged for all inputs by SMT over the exact machine-integer encoding: Montgomery and reduce32 congruences and bounds on their whole domains, Power2Round/Decompose/MakeHint/UseHint equal to the specification-level definitions for every residue, hint lemmas, the norm test equals the centred absolute value comparison, NTT/invNTT overflow-freedom and coefficient bounds for every input. NTT product = negacyclic product: linear-form typing of the real bodies + exhaustive evaluation of the real code on the 256x256 basis pairs.",
    "Trusted: govc VC generator, solvers, spec prelude (spec/10_dilithium.smt2 written from the Dilithium specification), Go semantics. The step 'a bilinear map is determined by its values on a basis' is not mechanised. zetas table facts are read from the initialiser in the working tree.",
    "contract-based deductive verification: VCs generated from the typed Go AST of /repo, discharged by z3/cvc5; finite table facts by exhaustive evaluation of the real code",
    "DESIGN.md section 4 C12")

reasons = {}
for p in ALL:
    if p not in checks:
        reasons[p] = "check not built yet (work in progress, see DESIGN.md section 8 build order)"

m = {
 "version": 1,
 "setup_cmd": f"cd /verif/govc && {GO} go build -o /verif/bin/govc .",
 "hooks": {
  "guard": "verif",
  "enable": "contract files <pkg>/zz_contracts_verif.go carry '//go:build verif'; govc loads /repo with -tags verif; they contain comments only and add no symbol",
  "baseline_off_cmd": "cd /repo && go test -mod=mod -vet=off -count=1 -timeout 25m ./...",
  "source_commits": [],
  "add_only": True
 },
 "engines": [{"name": "govc", "path": "/verif/govc", "serves_properties": sorted(checks), "kind_free_text": "contract-based deductive verifier for Go written for this task: weakest-precondition style VC generation by symbolic execution of the typed AST (go/packages + go/types) of /repo's working tree, contracts in Gobra-style comments, SMT back ends z3 5.1 / cvc5 1.0 / z3 4.8 raced per obligation; auxiliary back ends: table (exhaustive finite evaluation of real code), linform, effects (go/ssa), bounded (labelled)"}],
 "checks": [checks[p] for p in sorted(checks)],
 "notes": "See DESIGN.md. Every check rebuilds its obligations from /repo's working tree on each run.",
 "not_applicable": [{"property_id": p, "reason": reasons[p]} for p in sorted(reasons)],
}
import subprocess
try:
    m["hooks"]["source_commits"] = subprocess.check_output(["git","-C","/repo","log","--format=%H","--grep=^verif:"],text=True).split()
except Exception: pass
json.dump(m, open("/verif/MANIFEST.json","w"), indent=1)
print("checks:", sorted(checks), "n/a:", sorted(reasons))
