#!/usr/bin/env python3-vt
import json,sys,glob,jsonschema
s=json.load(open('/root/.vp/EVIDENCE.schema.json'))
bad=0
for f in sorted(glob.glob('/verif/evidence/*.json')):
    d=json.load(open(f))
    try:
        jsonschema.validate(d,s); print(f,"ok",d.get("level"))
    except Exception as e:
        bad=1; print(f,"BAD",str(e)[:200])
m=json.load(open('/verif/MANIFEST.json')); ms=json.load(open('/root/.vp/MANIFEST.schema.json'))
try:
    jsonschema.validate(m,ms); print("MANIFEST ok")
except Exception as e:
    bad=1; print("MANIFEST BAD",str(e)[:300])
sys.exit(bad)
