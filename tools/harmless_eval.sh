#!/bin/bash
# Apply each semantics-preserving patch in /verif/seeded/harmless (renamed locals and parameters, an extracted helper, ...)
# to /repo, run the listed checks (default: all), expect NO violation, and undo the patch.  usage: harmless_eval.sh [ids...]
cd /verif
if [ -n "$(git -C /repo status --porcelain)" ]; then echo "refusing: /repo has uncommitted changes"; exit 2; fi
ids="$@"; [ -z "$ids" ] && ids=$(python3 -c "import json;print(' '.join(c['property_id'] for c in json.load(open('MANIFEST.json'))['checks']))")
evsave=$(mktemp -d /tmp/evsave.XXXXXX); cp evidence/*.json $evsave/
rc=0
for p in seeded/harmless/*.diff; do
  git -C /repo apply $PWD/$p || { echo "cannot apply $p"; rc=2; continue; }
  (cd /repo && GOFLAGS=-mod=mod GOPROXY=off GOSUMDB=off GOTOOLCHAIN=local go build ./... ) || { echo "$p does not build"; rc=2; }
  out=$(echo $ids | tr ' ' '\n' | xargs -P 4 -I{} sh -c "./bin/govc check -p {} 2>&1 | grep -E '^VIOLATION|^{}:' | cut -c1-200")
  n=$(echo "$out" | grep -c '^VIOLATION')
  echo "harmless $p: $n violation line(s)"; [ $n -gt 0 ] && { echo "$out" | grep '^VIOLATION' | head -5; rc=1; }
  git -C /repo checkout -- .
done
cp $evsave/*.json evidence/; rm -rf $evsave
exit $rc
