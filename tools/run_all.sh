#!/bin/bash
# run every registered quick (or $1=thorough) check on /repo's working tree, 4 at a time; print the summary lines
tier=${1:-quick}
cd /verif
ids=$(python3 -c "import json;print(' '.join(c['property_id'] for c in json.load(open('MANIFEST.json'))['checks']))")
echo $ids | tr ' ' '\n' | xargs -P 4 -I{} sh -c "./bin/govc check -p {} -tier $tier > /tmp/runall_{}.log 2>&1; echo {} exit=\$? \$(grep -c '^VIOLATION' /tmp/runall_{}.log) violations: \$(tail -1 /tmp/runall_{}.log)"
