#!/bin/bash
# usage: mut.sh <file> <sed-expr> -- govc args...   (scratch copy of /repo's working tree, removed afterwards)
set -e
D=$(mktemp -d /tmp/mutrepo.XXXX)
rsync -a --exclude .git /repo/ $D/
f=$1; e=$2; shift 3
sed -i -E "$e" $D/$f
if diff -q /repo/$f $D/$f >/dev/null; then echo "MUTATION DID NOT APPLY"; rm -rf $D; exit 9; fi
diff /repo/$f $D/$f | head -6 || true
set +e
VERIF_REPO=$D /verif/bin/govc "$@"
rc=$?
rm -rf $D
exit $rc
