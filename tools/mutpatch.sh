#!/bin/bash
# usage: mutpatch.sh <patch.diff> -- govc args...   (scratch copy of /repo's working tree with the patch applied, removed afterwards)
D=$(mktemp -d /tmp/mutrepo.XXXX)
rsync -a --exclude .git /repo/ $D/
( cd $D && patch -p1 -s < $1 ) || { echo "PATCH DID NOT APPLY"; rm -rf $D; exit 9; }
shift 2
VERIF_REPO=$D /verif/bin/govc "$@"
rc=$?
rm -rf $D
exit $rc
