#!/usr/bin/env python3
"""Prints the contract text for the element-wise polyVecK/polyVecL lifts (uniform shape).
The output is pasted into /repo/dilithium/zz_contracts_verif.go; the text there is what is verified."""
out=[]
def P(s): out.append(s)
def coeff(v,i,k): return f"{v}.vec[{i}].coeffs[{k}]"
def lift(fn, dim, params, per, frame_unmod, requires=None, ensures_tag="C12", aliases=(), assigns=("v",), extra_ens=()):
    """per: function (i,k)->post relation text using old(); frame_unmod: list of params whose rows >= i are unchanged"""
    D = "K" if dim=="K" else "L"
    P(f"//@ func {fn}")
    P("//@   props C12")
    for a in aliases: P(f"//@   alias {a[0]} {a[1]}")
    for r in (requires or []): P(f"//@   requires {r}")
    P(f"//@   ensures[{ensures_tag}] forall i_, k_ :: 0 <= i_ && i_ < {D} && 0 <= k_ && k_ < N ==> {per('i_','k_')}")
    for e in extra_ens: P(f"//@   ensures {e}")
    P("//@   assigns " + ", ".join("*"+a for a in assigns))
    P(f"//@   loop 1 invariant 0 <= i && i <= {D}")
    P(f"//@   loop 1 invariant forall i_, k_ :: 0 <= i_ && i_ < i && 0 <= k_ && k_ < N ==> {per('i_','k_')}")
    un = " && ".join(f"{coeff(p,'i_','k_')} == old({coeff(p,'i_','k_')})" for p in frame_unmod)
    P(f"//@   loop 1 invariant forall i_, k_ :: i <= i_ && i_ < {D} && 0 <= k_ && k_ < N ==> {un}")
    P("")
def rng(v,lo,hi): return lambda i,k: f"{lo} <= {coeff(v,i,k)} && {coeff(v,i,k)} <= {hi}"
def vin(v,dim,lo,hi): return f"vec{dim}In({v}, {lo}, {hi})"
for dim in "LK":
    D = dim
    # NTT / invNTT: bounds only
    lift(f"polyVec{D}NTT", D, ["v"], lambda i,k: f"-9*Q < {coeff('v',i,k)} && {coeff('v',i,k)} < 9*Q", ["v"], [vin("v",D,"-Q+1","Q-1")])
    lift(f"polyVec{D}InvNTTToMont", D, ["v"], lambda i,k: f"-Q < {coeff('v',i,k)} && {coeff('v',i,k)} < Q", ["v"], [vin("v",D,"-Q+1","Q-1")])
    lift(f"polyVec{D}Reduce", D, ["v"], lambda i,k: f"-6283009 <= {coeff('v',i,k)} && {coeff('v',i,k)} <= 6283008 && ({coeff('v',i,k)} - old({coeff('v',i,k)})) % Q == 0", ["v"], [vin("v",D,"-2147483648","2147483647 - 4194304")])
    lift(f"polyVec{D}Add", D, ["w","u","v"], lambda i,k: f"{coeff('w',i,k)} == old({coeff('u',i,k)}) + old({coeff('v',i,k)})", ["u","v"],
         [f"forall i_, k_ :: 0 <= i_ && i_ < {D} && 0 <= k_ && k_ < N ==> -2147483648 <= {coeff('u','i_','k_')} + {coeff('v','i_','k_')} && {coeff('u','i_','k_')} + {coeff('v','i_','k_')} <= 2147483647"], aliases=[("w","u")], assigns=("w",))
    lift(f"polyVec{D}PointWisePolyMontgomery", D, ["r","a","v"],
         lambda i,k: f"-Q < {coeff('r',i,k)} && {coeff('r',i,k)} < Q && {coeff('r',i,k)}*4294967296 == old(a.coeffs[{k}])*old({coeff('v',i,k)}) - spec.MontT(old(a.coeffs[{k}])*old({coeff('v',i,k)}))*Q", ["v"],
         [f"forall i_, k_ :: 0 <= i_ && i_ < {D} && 0 <= k_ && k_ < N ==> -2147483648*Q <= a.coeffs[k_]*{coeff('v','i_','k_')} && a.coeffs[k_]*{coeff('v','i_','k_')} < 2147483648*Q"], aliases=[("r","v")], assigns=("r",))
D="K"
lift("polyVecKSub", D, ["w","u","v"], lambda i,k: f"{coeff('w',i,k)} == old({coeff('u',i,k)}) - old({coeff('v',i,k)})", ["u","v"],
     [f"forall i_, k_ :: 0 <= i_ && i_ < K && 0 <= k_ && k_ < N ==> -2147483648 <= {coeff('u','i_','k_')} - {coeff('v','i_','k_')} && {coeff('u','i_','k_')} - {coeff('v','i_','k_')} <= 2147483647"], aliases=[("w","u")], assigns=("w",))
lift("polyVecKShiftL", D, ["v"], lambda i,k: f"{coeff('v',i,k)} == old({coeff('v',i,k)}) * 8192", ["v"], [vin("v","K","0","1023")])
lift("polyVecKCAddQ", D, ["v"], lambda i,k: f"0 <= {coeff('v',i,k)} && {coeff('v',i,k)} < Q && ({coeff('v',i,k)} - old({coeff('v',i,k)})) % Q == 0", ["v"], [vin("v","K","-Q","Q-1")])
lift("polyVecKPower2Round", D, ["v1","v0","v"], lambda i,k: f"{coeff('v1',i,k)} == spec.P2R_hi(old({coeff('v',i,k)})) && {coeff('v0',i,k)} == spec.P2R_lo(old({coeff('v',i,k)})) && 0 <= {coeff('v1',i,k)} && {coeff('v1',i,k)} <= 1023 && -4095 <= {coeff('v0',i,k)} && {coeff('v0',i,k)} <= 4096", ["v"], [vin("v","K","0","Q-1")], aliases=[("v1","v")], assigns=("v1","v0"))
lift("polyVecKDecompose", D, ["v1","v0","v"], lambda i,k: f"{coeff('v1',i,k)} == spec.HighBits(old({coeff('v',i,k)})) && {coeff('v0',i,k)} == spec.LowBits(old({coeff('v',i,k)})) && 0 <= {coeff('v1',i,k)} && {coeff('v1',i,k)} <= 15 && -GAMMA2 <= {coeff('v0',i,k)} && {coeff('v0',i,k)} <= GAMMA2", ["v"], [vin("v","K","0","Q-1")], aliases=[("v1","v")], assigns=("v1","v0"))
lift("polyVecKUseHint", D, ["w","u","h"], lambda i,k: f"{coeff('w',i,k)} == spec.UseHint(old({coeff('h',i,k)}), old({coeff('u',i,k)})) && 0 <= {coeff('w',i,k)} && {coeff('w',i,k)} <= 15", ["u","h"], [vin("u","K","0","Q-1"), vin("h","K","0","1")], aliases=[("w","u")], assigns=("w",))
print("\n".join(out))
