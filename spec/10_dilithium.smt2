; CRYSTALS-Dilithium (round 3.1 / FIPS 204 section 7.4), parameter set 5, written from the
; specification text: q = 8380417, d = 13, gamma2 = (q-1)/32, alpha = 2*gamma2, m = (q-1)/alpha = 16.
(define-fun DQ () Int 8380417)
(define-fun DGamma2 () Int 261888)
(define-fun DAlpha () Int 523776)
; Power2Round_q(r): r0 = r mod+- 2^d ; return ((r - r0)/2^d, r0)
(define-fun P2R_lo ((r Int)) Int (modpm (mod r DQ) 8192))
(define-fun P2R_hi ((r Int)) Int (div (- (mod r DQ) (P2R_lo r)) 8192))
; Decompose_q(r, alpha): r0 = r mod+- alpha; if r - r0 = q-1 then (0, r0-1) else ((r-r0)/alpha, r0)
(define-fun Dec_r0 ((r Int)) Int (modpm (mod r DQ) DAlpha))
(define-fun HighBits ((r Int)) Int (ite (= (- (mod r DQ) (Dec_r0 r)) (- DQ 1)) 0 (div (- (mod r DQ) (Dec_r0 r)) DAlpha)))
(define-fun LowBits ((r Int)) Int (ite (= (- (mod r DQ) (Dec_r0 r)) (- DQ 1)) (- (Dec_r0 r) 1) (Dec_r0 r)))
; MakeHint_q(z, r) = [HighBits(r) != HighBits(r+z)]
(define-fun MakeHint ((z Int) (r Int)) Int (ite (= (HighBits r) (HighBits (+ r z))) 0 1))
; UseHint_q(h, r): m = 16
(define-fun UseHint ((h Int) (r Int)) Int
  (ite (= h 0) (HighBits r)
       (ite (> (LowBits r) 0) (mod (+ (HighBits r) 1) 16) (mod (- (HighBits r) 1) 16))))
; centred absolute value |a mod+- q|
(define-fun CAbs ((a Int)) Int (let ((c (modpm a DQ))) (ite (>= c 0) c (- c))))
; Montgomery reduction (R = 2^32): the quotient witness t = a * q^-1 mods 2^32  (q^-1 = 58728449 mod 2^32)
(define-fun smod32 ((x Int)) Int (- (mod (+ x 2147483648) 4294967296) 2147483648))
(define-fun MontT ((a Int)) Int (smod32 (* (smod32 a) 58728449)))
; NTT bookkeeping (level tables; Dilithium reference implementation structure, n = 256):
; forward transform: len = 128,64,..,1 ; level l = log2(128/len); before level l every |coeff| < (l+1) q
(define-fun nttLvl ((c Int)) Int (ite (= c 128) 0 (ite (= c 64) 1 (ite (= c 32) 2 (ite (= c 16) 3 (ite (= c 8) 4 (ite (= c 4) 5 (ite (= c 2) 6 (ite (= c 1) 7 8)))))))))
(define-fun nttLenOK ((c Int)) Bool (or (= c 128) (= c 64) (= c 32) (= c 16) (= c 8) (= c 4) (= c 2) (= c 1) (= c 0)))
; number of twiddles consumed before the level with this len: 128/len - 1   (255 once len = 0)
(define-fun nttK0 ((c Int)) Int (ite (= c 128) 0 (ite (= c 64) 1 (ite (= c 32) 3 (ite (= c 16) 7 (ite (= c 8) 15 (ite (= c 4) 31 (ite (= c 2) 63 (ite (= c 1) 127 255)))))))))
; blocks of size 2*len completed when the block start is s:  s / (2 len)
(define-fun nttBlk ((s Int) (c Int)) Int (ite (= c 128) (div s 256) (ite (= c 64) (div s 128) (ite (= c 32) (div s 64) (ite (= c 16) (div s 32) (ite (= c 8) (div s 16) (ite (= c 4) (div s 8) (ite (= c 2) (div s 4) (div s 2)))))))))
(define-fun nttAligned ((s Int) (c Int)) Bool (ite (= c 128) (= (mod s 256) 0) (ite (= c 64) (= (mod s 128) 0) (ite (= c 32) (= (mod s 64) 0) (ite (= c 16) (= (mod s 32) 0) (ite (= c 8) (= (mod s 16) 0) (ite (= c 4) (= (mod s 8) 0) (ite (= c 2) (= (mod s 4) 0) (= (mod s 2) 0)))))))))
; inverse transform: len = 1,2,..,128 ; twiddle index at the start of the level: 256/len
(define-fun inttK0 ((c Int)) Int (ite (= c 1) 256 (ite (= c 2) 128 (ite (= c 4) 64 (ite (= c 8) 32 (ite (= c 16) 16 (ite (= c 32) 8 (ite (= c 64) 4 (ite (= c 128) 2 1)))))))))
(define-fun inttLenOK ((c Int)) Bool (or (= c 128) (= c 64) (= c 32) (= c 16) (= c 8) (= c 4) (= c 2) (= c 1) (= c 256)))
; 2^32 * (sum over i < n of the Montgomery products of u[i][k] and v[i][k])
(define-fun-rec dotacc ((u (Array Int (Array Int Int))) (v (Array Int (Array Int Int))) (k Int) (n Int)) Int
  (ite (<= n 0) 0 (+ (dotacc u v k (- n 1))
      (- (* (select (select u (- n 1)) k) (select (select v (- n 1)) k)) (* (MontT (* (select (select u (- n 1)) k) (select (select v (- n 1)) k))) DQ)))))
; number of non-zero entries among h[0..n) (hint weight), and over the rows H[0..i) of a K x 256 hint matrix
(declare-fun nzup ((Array Int Int) Int) Int)
(assert (forall ((h (Array Int Int))) (! (= (nzup h 0) 0) :pattern ((nzup h 0)))))
(assert (forall ((h (Array Int Int)) (n Int)) (! (=> (>= n 0) (= (nzup h (+ n 1)) (+ (nzup h n) (ite (= (select h n) 0) 0 1)))) :pattern ((nzup h (+ n 1))))))
; nzrow(h) = nzup(h, 256), the weight of one whole row.  The defining equation is shipped only on request
; (`reveal spec.nzrowdef` / lemma `uses spec.nzrowdef`): z3 matches the numeral 256 against the pattern (+ n 1) and
; would unfold nzup 256 times for every row term, which drowns every VC that only needs the row weight as a number.
(declare-fun nzrow ((Array Int Int)) Int)
;@ needs nzrowdef
(assert (forall ((h (Array Int Int))) (! (= (nzrow h) (nzup h 256)) :pattern ((nzrow h)))))
(declare-fun nz2up ((Array Int (Array Int Int)) Int) Int)
(assert (forall ((H (Array Int (Array Int Int)))) (! (= (nz2up H 0) 0) :pattern ((nz2up H 0)))))
(assert (forall ((H (Array Int (Array Int Int))) (i Int)) (! (=> (>= i 0) (= (nz2up H (+ i 1)) (+ (nz2up H i) (nzrow (select H i))))) :pattern ((nz2up H (+ i 1))))))
; ---- rejection samplers (specification: ExpandA's RejNTTPoly / CoeffFromThreeBytes, ExpandS's RejBoundedPoly /
; CoeffFromHalfByte), as functions of the candidate index over a byte string B read from offset o ----
; ucand(B,o,j): the j-th 23-bit candidate; accepted iff < q
(define-fun ucand ((B (Array Int Int)) (o Int) (j Int)) Int
  (+ (select B (+ o (* 3 j))) (* 256 (select B (+ o (* 3 j) 1))) (* 65536 (mod (select B (+ o (* 3 j) 2)) 128))))
; ucnt(B,o,j): number of accepted candidates among the first j
(declare-fun ucnt ((Array Int Int) Int Int) Int)
;@ needs ucnt
(assert (forall ((B (Array Int Int)) (o Int)) (! (= (ucnt B o 0) 0) :pattern ((ucnt B o 0)))))
;@ needs ucnt
(assert (forall ((B (Array Int Int)) (o Int) (j Int)) (! (=> (>= j 0) (= (ucnt B o (+ j 1)) (+ (ucnt B o j) (ite (< (ucand B o j) DQ) 1 0)))) :pattern ((ucnt B o (+ j 1))))))
; enib(B,o,j): the j-th half-byte candidate (low nibble first); accepted iff < 15; value eta - (t mod 5) with eta = 2
(define-fun enib ((B (Array Int Int)) (o Int) (j Int)) Int
  (ite (= (mod j 2) 0) (mod (select B (+ o (div j 2))) 16) (div (select B (+ o (div j 2))) 16)))
(define-fun eval2 ((t Int)) Int (- 2 (mod t 5)))
(declare-fun ecnt ((Array Int Int) Int Int) Int)
;@ needs ecnt
(assert (forall ((B (Array Int Int)) (o Int)) (! (= (ecnt B o 0) 0) :pattern ((ecnt B o 0)))))
;@ needs ecnt
(assert (forall ((B (Array Int Int)) (o Int) (j Int)) (! (=> (>= j 0) (= (ecnt B o (+ j 1)) (+ (ecnt B o j) (ite (< (enib B o j) 15) 1 0)))) :pattern ((ecnt B o (+ j 1))))))
; ecntS / ucntS: same functions, with the unfolding step available at any index j > 0 written as a plain term
; (the step axioms above trigger only on indices of the syntactic form j+1)
(declare-fun ecntS ((Array Int Int) Int Int) Int)
;@ needs ecntS
(assert (forall ((B (Array Int Int)) (o Int) (j Int))
  (! (and (= (ecntS B o j) (ecnt B o j))
          (=> (> j 0) (= (ecnt B o j) (+ (ecnt B o (- j 1)) (ite (< (enib B o (- j 1)) 15) 1 0)))))
     :pattern ((ecntS B o j)))))
(declare-fun ucntS ((Array Int Int) Int Int) Int)
;@ needs ucntS
(assert (forall ((B (Array Int Int)) (o Int) (j Int))
  (! (and (= (ucntS B o j) (ucnt B o j))
          (=> (> j 0) (= (ucnt B o j) (+ (ucnt B o (- j 1)) (ite (< (ucand B o (- j 1)) DQ) 1 0)))))
     :pattern ((ucntS B o j)))))
; ---- SampleInBall (challenge polynomial), as a function of the stream S = SHAKE-256(seed) ----
; skipTo(S,P,i): the least position q >= P with S[q] <= i (the next byte accepted as index for step i)
(declare-fun skipTo ((Array Int Int) Int Int) Int)
(declare-fun skipToS ((Array Int Int) Int Int) Int)
;@ needs skipToS
(assert (forall ((S (Array Int Int)) (P Int) (i Int))
  (! (and (= (skipToS S P i) (skipTo S P i))
          (=> (<= (select S P) i) (= (skipTo S P i) P))
          (=> (> (select S P) i) (= (skipTo S P i) (skipTo S (+ P 1) i))))
     :pattern ((skipToS S P i)))))
; posAt(S,i): stream position before step i (steps i = N-TAU .. N-1); the first 8 bytes are the sign bits
(declare-fun posAt ((Array Int Int) Int) Int)
;@ needs posAt
(assert (forall ((S (Array Int Int))) (! (= (posAt S 196) 8) :pattern ((posAt S 196)))))
;@ needs posAt
(assert (forall ((S (Array Int Int)) (i Int)) (! (=> (>= i 196) (= (posAt S (+ i 1)) (+ (skipTo S (posAt S i) i) 1))) :pattern ((posAt S (+ i 1))))))
; sib(S,s0,i): the polynomial after steps N-TAU .. i-1 (s0 = the 64 sign bits, little-endian)
(declare-fun sib ((Array Int Int) Int Int) (Array Int Int))
;@ needs sib
(assert (forall ((S (Array Int Int)) (s0 Int)) (! (= (sib S s0 196) ((as const (Array Int Int)) 0)) :pattern ((sib S s0 196)))))
;@ needs sib
(assert (forall ((S (Array Int Int)) (s0 Int) (i Int))
  (! (=> (>= i 196)
         (= (sib S s0 (+ i 1))
            (store (store (sib S s0 i) i (select (sib S s0 i) (select S (skipTo S (posAt S i) i))))
                   (select S (skipTo S (posAt S i) i))
                   (- 1 (* 2 (mod (shrn s0 (- i 196)) 2))))))
     :pattern ((sib S s0 (+ i 1))))))
; ---- sorted enumerations (C13: re-encoding decoded hints); positions are absolute array indices ----
; adjinc(A,lo,hi): A is strictly increasing between adjacent positions of [lo,hi)
(declare-fun adjinc ((Array Int Int) Int Int) Bool)
;@ needs adjinc
(assert (forall ((A (Array Int Int)) (lo Int) (hi Int)) (! (= (adjinc A lo hi) (forall ((r Int)) (! (=> (and (< lo r) (< r hi)) (< (select A (- r 1)) (select A r))) :pattern ((select A r))))) :pattern ((adjinc A lo hi)))))
; imgsub(A,B,lo,hi): every value of A on [lo,hi) occurs in B on [lo,hi)
(declare-fun imgsub ((Array Int Int) (Array Int Int) Int Int) Bool)
;@ needs imgsub
(assert (forall ((A (Array Int Int)) (B (Array Int Int)) (lo Int) (hi Int)) (! (= (imgsub A B lo hi) (forall ((p Int)) (! (=> (and (<= lo p) (< p hi)) (exists ((q Int)) (and (<= lo q) (< q hi) (= (select B q) (select A p))))) :pattern ((select A p))))) :pattern ((imgsub A B lo hi)))))
; eqpre(A,B,lo,m): A and B agree on [lo,m)
(declare-fun eqpre ((Array Int Int) (Array Int Int) Int Int) Bool)
;@ needs eqpre
(assert (forall ((A (Array Int Int)) (B (Array Int Int)) (lo Int) (m Int)) (! (= (eqpre A B lo m) (forall ((p Int)) (! (=> (and (<= lo p) (< p m)) (= (select A p) (select B p))) :pattern ((select A p)) :pattern ((select B p))))) :pattern ((eqpre A B lo m)))))
