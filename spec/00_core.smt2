; Core helpers shared by all contracts.
; pow2(k) for 0 <= k <= 64 (shift counts); outside that range the value is unspecified (0).
(define-fun pow2 ((k Int)) Int
  (ite (= k 0) 1 (ite (= k 1) 2 (ite (= k 2) 4 (ite (= k 3) 8 (ite (= k 4) 16 (ite (= k 5) 32 (ite (= k 6) 64 (ite (= k 7) 128
  (ite (= k 8) 256 (ite (= k 9) 512 (ite (= k 10) 1024 (ite (= k 11) 2048 (ite (= k 12) 4096 (ite (= k 13) 8192 (ite (= k 14) 16384 (ite (= k 15) 32768
  (ite (= k 16) 65536 (ite (= k 17) 131072 (ite (= k 18) 262144 (ite (= k 19) 524288 (ite (= k 20) 1048576 (ite (= k 21) 2097152 (ite (= k 22) 4194304 (ite (= k 23) 8388608
  (ite (= k 24) 16777216 (ite (= k 25) 33554432 (ite (= k 26) 67108864 (ite (= k 27) 134217728 (ite (= k 28) 268435456 (ite (= k 29) 536870912 (ite (= k 30) 1073741824 (ite (= k 31) 2147483648
  (ite (= k 32) 4294967296 0))))))))))))))))))))))))))))))))))
; centred residue: the representative of a mod m in (-m/2, m/2]
(define-fun modpm ((a Int) (m Int)) Int (let ((r (mod a m))) (ite (> (* 2 r) m) (- r m) r)))
