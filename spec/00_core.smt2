; Core helpers shared by all contracts.
; pow2(k) for 0 <= k <= 64 (shift counts); outside that range the value is unspecified (0).
(define-fun pow2 ((k Int)) Int
  (ite (= k 0) 1 (ite (= k 1) 2 (ite (= k 2) 4 (ite (= k 3) 8 (ite (= k 4) 16 (ite (= k 5) 32 (ite (= k 6) 64 (ite (= k 7) 128
  (ite (= k 8) 256 (ite (= k 9) 512 (ite (= k 10) 1024 (ite (= k 11) 2048 (ite (= k 12) 4096 (ite (= k 13) 8192 (ite (= k 14) 16384 (ite (= k 15) 32768
  (ite (= k 16) 65536 (ite (= k 17) 131072 (ite (= k 18) 262144 (ite (= k 19) 524288 (ite (= k 20) 1048576 (ite (= k 21) 2097152 (ite (= k 22) 4194304 (ite (= k 23) 8388608
  (ite (= k 24) 16777216 (ite (= k 25) 33554432 (ite (= k 26) 67108864 (ite (= k 27) 134217728 (ite (= k 28) 268435456 (ite (= k 29) 536870912 (ite (= k 30) 1073741824 (ite (= k 31) 2147483648
  (ite (= k 32) 4294967296 0))))))))))))))))))))))))))))))))))
; centred residue: the representative of a mod m in (-m/2, m/2]
(define-fun modpm ((a Int) (m Int)) Int (let ((r (mod a m))) (ite (> (* 2 r) m) (- r m) r)))
; ---- byte strings and hash primitives (T4: hashes are deterministic functions of their input bytes; an XOF
; is an infinite stream per input, a read of n bytes returns its first n bytes) ----
; A byte string is a canonical array (zero outside [0,len)) plus its length.
(declare-fun sub ((Array Int Int) Int Int) (Array Int Int))
(assert (forall ((A (Array Int Int)) (o Int) (n Int) (i Int))
  (! (= (select (sub A o n) i) (ite (and (<= 0 i) (< i n)) (select A (+ o i)) 0)) :pattern ((select (sub A o n) i)))))
(declare-fun cat ((Array Int Int) Int (Array Int Int) Int) (Array Int Int))
(assert (forall ((A (Array Int Int)) (n Int) (B (Array Int Int)) (m Int) (i Int))
  (! (= (select (cat A n B m) i) (ite (< i n) (select A i) (ite (< i (+ n m)) (select B (- i n)) 0))) :pattern ((select (cat A n B m) i)))))
; shake(kind, msg, len, q): byte q of the SHAKE-<kind> output stream on input msg[0:len]
(declare-fun shake (Int (Array Int Int) Int Int) Int)
(assert (forall ((k Int) (A (Array Int Int)) (n Int) (q Int)) (! (and (<= 0 (shake k A n q)) (<= (shake k A n q) 255)) :pattern ((shake k A n q)))))
; sha256(msg, len, q): byte q (0..31) of SHA-256(msg[0:len])
(declare-fun sha256 ((Array Int Int) Int Int) Int)
(assert (forall ((A (Array Int Int)) (n Int) (q Int)) (! (and (<= 0 (sha256 A n q)) (<= (sha256 A n q) 255)) :pattern ((sha256 A n q)))))
; abstract strings (elements of []string, map keys): only equality is used
(declare-sort Str 0)
; byte j (j = 0 least significant) of a 32-bit value; 0 beyond byte 3
(define-fun byte32 ((x Int) (j Int)) Int (ite (= j 0) (mod x 256) (ite (= j 1) (mod (div x 256) 256) (ite (= j 2) (mod (div x 65536) 256) (ite (= j 3) (mod (div x 16777216) 256) 0)))))
(define-fun shr8 ((x Int) (j Int)) Int (ite (<= j 0) x (ite (= j 1) (div x 256) (ite (= j 2) (div x 65536) (ite (= j 3) (div x 16777216) 0)))))
; WOTS+ private/public key size (bytes) for n = 32: len * n, len = len1 + len2 (RFC 8391 section 3.1.1)
(define-fun wotsKeySize ((w Int)) Int (ite (= w 4) 4256 (ite (= w 16) 2144 (ite (= w 256) 1088 0))))
; A hash depends only on the first len bytes of its input (T4), stated in skolemised form so that the
; solvers can use it: either the two inputs differ at the witness index inside [0,len), or the outputs agree.
(declare-fun bdiff ((Array Int Int) (Array Int Int) Int) Int)
(assert (forall ((k Int) (X (Array Int Int)) (Y (Array Int Int)) (n Int) (m Int) (q Int))
  (! (or (not (= n m)) (and (<= 0 (bdiff X Y n)) (< (bdiff X Y n) n) (not (= (select X (bdiff X Y n)) (select Y (bdiff X Y n)))))
         (= (shake k X n q) (shake k Y m q)))
     :pattern ((shake k X n q) (shake k Y m q)))))
(assert (forall ((X (Array Int Int)) (Y (Array Int Int)) (n Int) (m Int) (q Int))
  (! (or (not (= n m)) (and (<= 0 (bdiff X Y n)) (< (bdiff X Y n) n) (not (= (select X (bdiff X Y n)) (select Y (bdiff X Y n)))))
         (= (sha256 X n q) (sha256 Y m q)))
     :pattern ((sha256 X n q) (sha256 Y m q)))))
; extensionality of windows in skolemised form: two windows of equal length are equal as canonical byte strings
; unless they differ at the witness position (consequence of the definition of sub and array extensionality)
(declare-fun subdiff ((Array Int Int) (Array Int Int) Int Int Int) Int)
(assert (forall ((A (Array Int Int)) (B (Array Int Int)) (o Int) (p Int) (n Int))
  (! (or (and (<= 0 (subdiff A B o p n)) (< (subdiff A B o p n) n) (not (= (select A (+ o (subdiff A B o p n))) (select B (+ p (subdiff A B o p n))))))
         (= (sub A o n) (sub B p n)))
     :pattern ((sub A o n) (sub B p n)))))
; hexadecimal digits (encoding/hex): value of a digit, lower-case digit of a value
(define-fun ishexdigit ((c Int)) Bool (or (and (<= 48 c) (<= c 57)) (and (<= 97 c) (<= c 102)) (and (<= 65 c) (<= c 70))))
(define-fun hexval ((c Int)) Int (ite (and (<= 48 c) (<= c 57)) (- c 48) (ite (and (<= 97 c) (<= c 102)) (- c 87) (ite (and (<= 65 c) (<= c 70)) (- c 55) 0))))
(define-fun hexchar ((v Int)) Int (ite (< v 10) (+ 48 v) (+ 87 v)))
; unhex(A, o, n): the n/2 bytes denoted by the n hex digits A[o..o+n), as a canonical byte string
(declare-fun unhex ((Array Int Int) Int Int) (Array Int Int))
(assert (forall ((A (Array Int Int)) (o Int) (n Int) (i Int))
  (! (= (select (unhex A o n) i) (ite (and (<= 0 i) (< (* 2 i) n)) (+ (* 16 (hexval (select A (+ o (* 2 i))))) (hexval (select A (+ o (* 2 i) 1)))) 0)) :pattern ((select (unhex A o n) i)))))
; overlay(M, lo, n, S): M with the window [lo, lo+n) replaced by S[0..n)
(declare-fun overlay ((Array Int Int) Int Int (Array Int Int)) (Array Int Int))
(assert (forall ((M (Array Int Int)) (lo Int) (n Int) (S (Array Int Int)) (i Int))
  (! (= (select (overlay M lo n S) i) (ite (and (<= lo i) (< i (+ lo n))) (select S (- i lo)) (select M i))) :pattern ((select (overlay M lo n S) i)))))
(assert (forall ((M (Array Int Int)) (lo Int) (n Int) (S (Array Int Int)))
  (! (= (sub (overlay M lo n S) lo n) (sub S 0 n)) :pattern ((sub (overlay M lo n S) lo n)))))
(assert (forall ((S (Array Int Int)) (o Int) (n Int))
  (! (= (sub (sub S o n) 0 n) (sub S o n)) :pattern ((sub (sub S o n) 0 n)))))
; shakeArr(kind, msg, len, n): the first n output bytes of SHAKE-<kind>(msg[0:len]) as a canonical byte string
(declare-fun shakeArr (Int (Array Int Int) Int Int) (Array Int Int))
(assert (forall ((k Int) (A (Array Int Int)) (m Int) (n Int) (i Int))
  (! (= (select (shakeArr k A m n) i) (ite (and (<= 0 i) (< i n)) (shake k A m i) 0)) :pattern ((select (shakeArr k A m n) i)))))
; ---- XMSS hash constructions (RFC 8391 section 5.1 with the QRL conventions: 32-byte big-endian toByte, hash id
; 0 = SHA2-256, 1 = SHAKE-128, 2 = SHAKE-256; address = 8 big-endian 32-bit words) ----
; toByte32(v): v as a 32-byte big-endian string
(declare-fun toByte32 (Int) (Array Int Int))
(assert (forall ((v Int) (i Int)) (! (= (select (toByte32 v) i) (ite (and (<= 0 i) (< i 32)) (byte32 v (- 31 i)) 0)) :pattern ((select (toByte32 v) i)))))
; addrBytes(A): the 8 address words A[0..7] serialised big-endian into 32 bytes
(declare-fun addrBytes ((Array Int Int)) (Array Int Int))
(assert (forall ((A (Array Int Int)) (i Int)) (! (= (select (addrBytes A) i) (ite (and (<= 0 i) (< i 32)) (byte32 (select A (div i 4)) (- 3 (mod i 4))) 0)) :pattern ((select (addrBytes A) i)))))
; xhash(hf, msg, len, q): byte q of the digest of msg[0:len] under hash function id hf (only ids 0..2 are hash functions)
(define-fun xhash ((hf Int) (A (Array Int Int)) (n Int) (q Int)) Int (ite (= hf 1) (shake 128 A n q) (ite (= hf 2) (shake 256 A n q) (sha256 A n q))))
; corein(type, key, keyLen, in, inLen): toByte(type,32) || key[0:keyLen] || in[0:inLen]
(define-fun corein ((ty Int) (K (Array Int Int)) (kl Int) (I (Array Int Int)) (il Int)) (Array Int Int) (cat (cat (toByte32 ty) 32 K kl) (+ 32 kl) I il))
; xorArr(A, B, n): byte-wise xor of two n-byte strings
(declare-fun bxor (Int Int) Int)
(declare-fun xorArr ((Array Int Int) (Array Int Int) Int) (Array Int Int))
(assert (forall ((A (Array Int Int)) (B (Array Int Int)) (n Int) (i Int)) (! (= (select (xorArr A B n) i) (ite (and (<= 0 i) (< i n)) (bxor (select A i) (select B i)) 0)) :pattern ((select (xorArr A B n) i)))))
; hashArr(hf, msg, len, n): the first n digest bytes as a canonical string
(declare-fun hashArr (Int (Array Int Int) Int Int) (Array Int Int))
(assert (forall ((hf Int) (A (Array Int Int)) (m Int) (n Int) (i Int)) (! (= (select (hashArr hf A m n) i) (ite (and (<= 0 i) (< i n)) (xhash hf A m i) 0)) :pattern ((select (hashArr hf A m n) i)))))
; PRF(key, in32) = H(toByte(3,32) || key || in32)
(define-fun prfArr ((hf Int) (K (Array Int Int)) (I (Array Int Int))) (Array Int Int) (hashArr hf (corein 3 K 32 I 32) 96 32))
; ---- Merkle authentication-path fold (RFC 8391 Algorithm 13 with the library's address convention: the parent at
; height j+1 is hashed with tree-height word j and tree-index word idx >> (j+1)) ----
(declare-fun shrn (Int Int) Int)
;@ needs shrn
(assert (forall ((x Int)) (! (= (shrn x 0) x) :pattern ((shrn x 0)))))
;@ needs shrn
(assert (forall ((x Int) (i Int)) (! (=> (>= i 0) (= (shrn x (+ i 1)) (div (shrn x i) 2))) :pattern ((shrn x (+ i 1))))))
; randHash(hf, PS, AD, X): H with key/masks derived from address AD (keyAndMask word 7 = 0, 1, 2) over the 64-byte X
(declare-fun randHash (Int (Array Int Int) (Array Int Int) (Array Int Int)) (Array Int Int))
;@ needs randHash
;@ defines randHash
(assert (forall ((hf Int) (PS (Array Int Int)) (AD (Array Int Int)) (X (Array Int Int)))
  (! (= (randHash hf PS AD X)
        (hashArr hf (corein 1 (prfArr hf PS (addrBytes (store AD 7 0))) 32
                      (xorArr X (cat (prfArr hf PS (addrBytes (store AD 7 1))) 32 (prfArr hf PS (addrBytes (store AD 7 2))) 32) 64) 64) 128 32))
     :pattern ((randHash hf PS AD X)))))
; fold(hf, PS, A, L, idx, AU, ao, j): the node at height j on the path of leaf idx: L at height 0; auth node j is AU[ao+32j ..)
(declare-fun fold (Int (Array Int Int) (Array Int Int) (Array Int Int) Int (Array Int Int) Int Int) (Array Int Int))
;@ needs fold
(assert (forall ((hf Int) (PS (Array Int Int)) (A (Array Int Int)) (L (Array Int Int)) (idx Int) (AU (Array Int Int)) (ao Int))
  (! (= (fold hf PS A L idx AU ao 0) L) :pattern ((fold hf PS A L idx AU ao 0)))))
;@ needs fold
(assert (forall ((hf Int) (PS (Array Int Int)) (A (Array Int Int)) (L (Array Int Int)) (idx Int) (AU (Array Int Int)) (ao Int) (j Int))
  (! (=> (>= j 0)
         (= (fold hf PS A L idx AU ao (+ j 1))
            (randHash hf PS (store (store A 5 j) 6 (shrn idx (+ j 1)))
                      (ite (= (mod (shrn idx j) 2) 1)
                           (cat (sub AU (+ ao (* 32 j)) 32) 32 (fold hf PS A L idx AU ao j) 32)
                           (cat (fold hf PS A L idx AU ao j) 32 (sub AU (+ ao (* 32 j)) 32) 32)))))
     :pattern ((fold hf PS A L idx AU ao (+ j 1))))))
; foldTop = fold, with one unfolding step available at any height j > 0 (the trigger of the step axiom above needs a
; term of the form j+1; foldTop gives the same unfolding for a height written as a plain variable)
(declare-fun foldTop (Int (Array Int Int) (Array Int Int) (Array Int Int) Int (Array Int Int) Int Int) (Array Int Int))
;@ needs foldTop
(assert (forall ((hf Int) (PS (Array Int Int)) (A (Array Int Int)) (L (Array Int Int)) (idx Int) (AU (Array Int Int)) (ao Int) (j Int))
  (! (and (= (foldTop hf PS A L idx AU ao j) (fold hf PS A L idx AU ao j))
          (=> (> j 0) (= (shrn idx j) (div (shrn idx (- j 1)) 2)))
          (=> (> j 0)
              (= (fold hf PS A L idx AU ao j)
                 (randHash hf PS (store (store A 5 (- j 1)) 6 (shrn idx j))
                      (ite (= (mod (shrn idx (- j 1)) 2) 1)
                           (cat (sub AU (+ ao (* 32 (- j 1))) 32) 32 (fold hf PS A L idx AU ao (- j 1)) 32)
                           (cat (fold hf PS A L idx AU ao (- j 1)) 32 (sub AU (+ ao (* 32 (- j 1))) 32) 32))))))
     :pattern ((foldTop hf PS A L idx AU ao j)))))
; xstream(kind, msg, len): the whole output stream of SHAKE-<kind>(msg[0:len]) as an array indexed from 0
(declare-fun xstream (Int (Array Int Int) Int) (Array Int Int))
;@ needs xstream
(assert (forall ((k Int) (A (Array Int Int)) (m Int) (i Int))
  (! (= (select (xstream k A m) i) (ite (<= 0 i) (shake k A m i) 0)) :pattern ((select (xstream k A m) i)))))
; le16(v): the two bytes of v mod 2^16, little-endian
(declare-fun le16 (Int) (Array Int Int))
;@ needs le16
(assert (forall ((v Int) (i Int)) (! (= (select (le16 v) i) (ite (= i 0) (mod v 256) (ite (= i 1) (mod (div v 256) 256) 0))) :pattern ((select (le16 v) i)))))
; ---- WOTS+ chains (RFC 8391 Algorithm 2): randF = F with key/mask derived from the address (keyAndMask 0, 1) ----
(declare-fun randF (Int (Array Int Int) (Array Int Int) (Array Int Int)) (Array Int Int))
;@ needs randF
;@ defines randF
(assert (forall ((hf Int) (PS (Array Int Int)) (AD (Array Int Int)) (X (Array Int Int)))
  (! (= (randF hf PS AD X)
        (hashArr hf (corein 0 (prfArr hf PS (addrBytes (store AD 7 0))) 32
                      (xorArr X (prfArr hf PS (addrBytes (store AD 7 1))) 32) 32) 96 32))
     :pattern ((randF hf PS AD X)))))
; chain(hf, PS, A, X, s, k): X after k chain steps starting at step index s (hash-address word 6 = s, s+1, ...)
(declare-fun chain (Int (Array Int Int) (Array Int Int) (Array Int Int) Int Int) (Array Int Int))
(declare-fun chainS (Int (Array Int Int) (Array Int Int) (Array Int Int) Int Int) (Array Int Int))
;@ needs chain
(assert (forall ((hf Int) (PS (Array Int Int)) (A (Array Int Int)) (X (Array Int Int)) (s Int))
  (! (= (chain hf PS A X s 0) X) :pattern ((chain hf PS A X s 0)))))
;@ needs chain
;@ defines chain
(assert (forall ((hf Int) (PS (Array Int Int)) (A (Array Int Int)) (X (Array Int Int)) (s Int) (k Int))
  (! (=> (>= k 0) (= (chain hf PS A X s (+ k 1)) (randF hf PS (store A 6 (+ s k)) (chain hf PS A X s k))))
     :pattern ((chain hf PS A X s (+ k 1))))))
;@ needs chainS
(assert (forall ((hf Int) (PS (Array Int Int)) (A (Array Int Int)) (X (Array Int Int)) (s Int) (k Int))
  (! (and (= (chainS hf PS A X s k) (chain hf PS A X s k))
          (=> (> k 0) (= (chain hf PS A X s k) (randF hf PS (store A 6 (+ s (- k 1))) (chain hf PS A X s (- k 1))))))
     :pattern ((chainS hf PS A X s k)))))
; ---- base-w digits (RFC 8391 Algorithm 1), most significant bits first; lw = lg(w) in {2,4,8} ----
(declare-fun bwdig ((Array Int Int) Int Int Int) Int)
;@ needs bwdig
;@ defines bwdig
(assert (forall ((B (Array Int Int)) (o Int) (k Int) (lw Int))
  (! (= (bwdig B o k lw)
  (ite (= lw 8) (select B (+ o k))
  (ite (= lw 4) (ite (= (mod k 2) 0) (div (select B (+ o (div k 2))) 16) (mod (select B (+ o (div k 2))) 16))
       (ite (= (mod k 4) 0) (div (select B (+ o (div k 4))) 64)
       (ite (= (mod k 4) 1) (mod (div (select B (+ o (div k 4))) 16) 4)
       (ite (= (mod k 4) 2) (mod (div (select B (+ o (div k 4))) 4) 4)
                            (mod (select B (+ o (div k 4))) 4)))))))
     :pattern ((bwdig B o k lw)))))
; toByteN(v, nb): v as nb big-endian bytes (RFC 8391 toByte)
(declare-fun toByteN (Int Int) (Array Int Int))
;@ needs toByteN
(assert (forall ((v Int) (nb Int) (d Int)) (! (= (select (toByteN v nb) d) (ite (and (<= 0 d) (< d nb)) (byte32 v (- (- nb 1) d)) 0)) :pattern ((select (toByteN v nb) d)))))
; wsum(B,o,n,lw,w): WOTS+ checksum of the first n base-w digits: sum of (w-1-digit)
(declare-fun wsum ((Array Int Int) Int Int Int Int) Int)
;@ needs wsum
(assert (forall ((B (Array Int Int)) (o Int) (lw Int) (w Int)) (! (= (wsum B o 0 lw w) 0) :pattern ((wsum B o 0 lw w)))))
;@ needs wsum
(assert (forall ((B (Array Int Int)) (o Int) (n Int) (lw Int) (w Int))
  (! (=> (>= n 0) (= (wsum B o (+ n 1) lw w) (+ (wsum B o n lw w) (- (- w 1) (bwdig B o n lw))))) :pattern ((wsum B o (+ n 1) lw w)))))
; ---- L-tree (RFC 8391 Algorithm 8) over n WOTS+ public-key elements PK[o+32j ..): llen(n,t) nodes at level t,
; lnode(.., t, i) the i-th of them; an odd last node is carried up unchanged ----
(declare-fun llen (Int Int) Int)
;@ needs llen
(assert (forall ((n Int)) (! (= (llen n 0) n) :pattern ((llen n 0)))))
;@ needs llen
(assert (forall ((n Int) (t Int)) (! (=> (>= t 0) (= (llen n (+ t 1)) (div (+ (llen n t) 1) 2))) :pattern ((llen n (+ t 1))))))
(declare-fun lnode (Int (Array Int Int) (Array Int Int) (Array Int Int) Int Int Int Int) (Array Int Int))
;@ needs lnode
(assert (forall ((hf Int) (PS (Array Int Int)) (A (Array Int Int)) (PK (Array Int Int)) (o Int) (n Int) (i Int))
  (! (= (lnode hf PS A PK o n 0 i) (sub PK (+ o (* 32 i)) 32)) :pattern ((lnode hf PS A PK o n 0 i)))))
;@ needs lnode
(assert (forall ((hf Int) (PS (Array Int Int)) (A (Array Int Int)) (PK (Array Int Int)) (o Int) (n Int) (t Int) (i Int))
  (! (=> (>= t 0)
         (= (lnode hf PS A PK o n (+ t 1) i)
            (ite (< i (div (llen n t) 2))
                 (randHash hf PS (store (store A 5 t) 6 i) (cat (lnode hf PS A PK o n t (* 2 i)) 32 (lnode hf PS A PK o n t (+ (* 2 i) 1)) 32))
                 (lnode hf PS A PK o n t (- (llen n t) 1)))))
     :pattern ((lnode hf PS A PK o n (+ t 1) i)))))
(declare-fun lnodeS (Int (Array Int Int) (Array Int Int) (Array Int Int) Int Int Int Int) (Array Int Int))
;@ needs lnodeS
(assert (forall ((hf Int) (PS (Array Int Int)) (A (Array Int Int)) (PK (Array Int Int)) (o Int) (n Int) (t Int) (i Int))
  (! (and (= (lnodeS hf PS A PK o n t i) (lnode hf PS A PK o n t i))
          (=> (> t 0)
              (= (lnode hf PS A PK o n t i)
                 (ite (< i (div (llen n (- t 1)) 2))
                      (randHash hf PS (store (store A 5 (- t 1)) 6 i) (cat (lnode hf PS A PK o n (- t 1) (* 2 i)) 32 (lnode hf PS A PK o n (- t 1) (+ (* 2 i) 1)) 32))
                      (lnode hf PS A PK o n (- t 1) (- (llen n (- t 1)) 1))))))
     :pattern ((lnodeS hf PS A PK o n t i)))))
; addrTI(type, idx): the hash address with type word 3 = type, word 4 = idx and every other word 0
(declare-fun addrTI (Int Int) (Array Int Int))
;@ needs addrTI
(assert (forall ((ty Int) (ix Int) (k Int)) (! (= (select (addrTI ty ix) k) (ite (= k 3) ty (ite (= k 4) ix 0))) :pattern ((select (addrTI ty ix) k)))))
; ---- WOTS+ public key recomputed from a signature (RFC 8391 Algorithm 6) as a byte string ----
; wdig: digit i of (message digits || checksum digits); sh = 8 - (len2*lw) % 8, nb = ceil(len2*lw / 8)
; wshift(x, sh) = (x << sh) mod 2^32 for the shift amounts 0..8 that occur (8 - (len2*lg w) % 8)
(declare-fun wshift (Int Int) Int)
;@ needs wshift
(assert (forall ((x Int) (sh Int))
  (! (= (wshift x sh)
        (mod (* x (ite (= sh 0) 1 (ite (= sh 1) 2 (ite (= sh 2) 4 (ite (= sh 3) 8 (ite (= sh 4) 16 (ite (= sh 5) 32 (ite (= sh 6) 64 (ite (= sh 7) 128 256))))))))) 4294967296))
     :pattern ((wshift x sh)))))
(declare-fun wdig ((Array Int Int) Int Int Int Int Int Int Int) Int)
;@ needs wdig
;@ defines wdig
(assert (forall ((M (Array Int Int)) (mo Int) (i Int) (lw Int) (w Int) (len1 Int) (sh Int) (nb Int))
  (! (= (wdig M mo i lw w len1 sh nb)
        (ite (< i len1) (bwdig M mo i lw)
             (bwdig (toByteN (wshift (wsum M mo len1 lw w) sh) nb) 0 (- i len1) lw)))
     :pattern ((wdig M mo i lw w len1 sh nb)))))
(declare-fun wpkNode (Int (Array Int Int) (Array Int Int) (Array Int Int) Int (Array Int Int) Int Int Int Int Int Int Int) (Array Int Int))
;@ needs wpkNode
;@ defines wpkNode
(assert (forall ((hf Int) (PS (Array Int Int)) (A (Array Int Int)) (SG (Array Int Int)) (so Int) (M (Array Int Int)) (mo Int) (lw Int) (w Int) (len1 Int) (sh Int) (nb Int) (i Int))
  (! (= (wpkNode hf PS A SG so M mo lw w len1 sh nb i)
        (chain hf PS (store A 5 i) (sub SG (+ so (* 32 i)) 32) (wdig M mo i lw w len1 sh nb) (- (- w 1) (wdig M mo i lw w len1 sh nb))))
     :pattern ((wpkNode hf PS A SG so M mo lw w len1 sh nb i)))))
(declare-fun wpkArr (Int (Array Int Int) (Array Int Int) (Array Int Int) Int (Array Int Int) Int Int Int Int Int Int) (Array Int Int))
;@ needs wpkArr
(assert (forall ((hf Int) (PS (Array Int Int)) (A (Array Int Int)) (SG (Array Int Int)) (so Int) (M (Array Int Int)) (mo Int) (lw Int) (w Int) (len1 Int) (sh Int) (nb Int) (p Int))
  (! (= (select (wpkArr hf PS A SG so M mo lw w len1 sh nb) p)
        (select (wpkNode hf PS A SG so M mo lw w len1 sh nb (div p 32)) (mod p 32)))
     :pattern ((select (wpkArr hf PS A SG so M mo lw w len1 sh nb) p)))))
(declare-fun llenS (Int Int) Int)
;@ needs llenS
(assert (forall ((n Int) (t Int))
  (! (and (= (llenS n t) (llen n t)) (=> (> t 0) (= (llen n t) (div (+ (llen n (- t 1)) 1) 2))))
     :pattern ((llenS n t)))))
; ---- WOTS+ signing and key generation (RFC 8391 Algorithms 4, 5) ----
; secret chain start i = PRF(seed, toByte(i,32)); signature element i = chain from 0 over digit_i steps; public-key
; element i = chain from 0 over w-1 steps
(declare-fun wsigNode (Int (Array Int Int) (Array Int Int) (Array Int Int) Int (Array Int Int) Int Int Int Int Int Int Int) (Array Int Int))
;@ needs wsigNode
;@ defines wsigNode
(assert (forall ((hf Int) (PS (Array Int Int)) (A (Array Int Int)) (SK (Array Int Int)) (sko Int) (M (Array Int Int)) (mo Int) (lw Int) (w Int) (len1 Int) (sh Int) (nb Int) (i Int))
  (! (= (wsigNode hf PS A SK sko M mo lw w len1 sh nb i)
        (chain hf PS (store A 5 i) (sub (prfArr hf (sub SK sko 32) (toByte32 i)) 0 32) 0 (wdig M mo i lw w len1 sh nb)))
     :pattern ((wsigNode hf PS A SK sko M mo lw w len1 sh nb i)))))
(declare-fun wgenNode (Int (Array Int Int) (Array Int Int) (Array Int Int) Int Int Int) (Array Int Int))
;@ needs wgenNode
;@ defines wgenNode
(assert (forall ((hf Int) (PS (Array Int Int)) (A (Array Int Int)) (SK (Array Int Int)) (sko Int) (w Int) (i Int))
  (! (= (wgenNode hf PS A SK sko w i)
        (chain hf PS (store A 5 i) (sub (prfArr hf (sub SK sko 32) (toByte32 i)) 0 32) 0 (- w 1)))
     :pattern ((wgenNode hf PS A SK sko w i)))))
; the generated WOTS+ public key as one byte string: byte p is byte p mod 32 of element p div 32
(declare-fun wgenArr (Int (Array Int Int) (Array Int Int) (Array Int Int) Int Int) (Array Int Int))
;@ needs wgenArr
(assert (forall ((hf Int) (PS (Array Int Int)) (A (Array Int Int)) (SK (Array Int Int)) (sko Int) (w Int) (p Int))
  (! (= (select (wgenArr hf PS A SK sko w) p) (select (wgenNode hf PS A SK sko w (div p 32)) (mod p 32)))
     :pattern ((select (wgenArr hf PS A SK sko w) p)))))
; wshiftOf(lw) = 8 - (len2 * lw) % 8 for the three WOTS+ parameter sets (lw = 4, 2, 8 with len2 = 3, 5, 2)
(declare-fun wshiftOf (Int) Int)
;@ needs wshiftOf
(assert (and (= (wshiftOf 4) 4) (= (wshiftOf 2) 6) (= (wshiftOf 8) 8)))
