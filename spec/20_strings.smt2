; ---- abstract strings for the mnemonic codec (C10).  Assumed library semantics (T5), stated over an abstract
; sort: sconcat = string concatenation; joined(W, n) = what n calls of fmt.Fprint(buf, sep, W[m]) with sep = ""
; for the first and " " for the others leave in a bytes.Buffer; ntok/tok = strings.Split(s, " "). ----
(declare-fun str_empty () Str)
(declare-fun str_space () Str)
(declare-fun sconcat (Str Str) Str)
(declare-fun strbytes ((Array Int Int) Int) Str)
(declare-fun joined ((Array Int Str) Int) Str)
(assert (forall ((W (Array Int Str))) (! (= (joined W 0) str_empty) :pattern ((joined W 0)))))
(assert (forall ((W (Array Int Str)) (m Int)) (! (=> (>= m 0) (= (joined W (+ m 1)) (sconcat (sconcat (joined W m) (ite (= m 0) str_empty str_space)) (select W m)))) :pattern ((joined W (+ m 1))))))
; joined depends only on the first n words (skolemised extensionality)
(declare-fun jdiff ((Array Int Str) (Array Int Str) Int) Int)
;@ needs joined
(assert (forall ((W (Array Int Str)) (V (Array Int Str)) (n Int))
  (! (or (and (<= 0 (jdiff W V n)) (< (jdiff W V n) n) (not (= (select W (jdiff W V n)) (select V (jdiff W V n))))) (= (joined W n) (joined V n))) :pattern ((joined W n) (joined V n)))))
(declare-fun ntok (Str) Int)
(declare-fun tok (Str Int) Str)
(declare-fun toks (Str) (Array Int Str))
;@ needs toks
(assert (forall ((s Str) (i Int)) (! (= (select (toks s) i) (tok s i)) :pattern ((select (toks s) i)))))
(assert (forall ((s Str)) (! (>= (ntok s) 1) :pattern ((ntok s)))))
; strings.Join(strings.Split(s, " "), " ") == s for every s
;@ needs joined ntok
(assert (forall ((s Str)) (! (= (joined (toks s) (ntok s)) s) :pattern ((ntok s)))))
; wordok(w): w is non-empty and contains no blank.  Splitting a phrase joined from such words returns them.
(declare-fun wordok (Str) Bool)
(declare-fun jbad ((Array Int Str) Int) Int)
;@ needs joined ntok
(assert (forall ((W (Array Int Str)) (n Int))
  (! (=> (>= n 1) (or (and (<= 0 (jbad W n)) (< (jbad W n) n) (not (wordok (select W (jbad W n)))))
                     (and (= (ntok (joined W n)) n) (forall ((i Int)) (! (=> (and (<= 0 i) (< i n)) (= (tok (joined W n) i) (select W i))) :pattern ((tok (joined W n) i)))))))
     :pattern ((joined W n)))))
; ---- the QRL word list: facts decided exhaustively on the real table by the table back end (4096 entries,
; pairwise distinct, each non-empty, lower-case letters only, hence blank-free) ----
(declare-fun wordlist () (Array Int Str))
(declare-fun widx (Str) Int)
(declare-fun inlist (Str) Bool)
(assert (forall ((k Int)) (! (=> (and (<= 0 k) (< k 4096)) (and (= (widx (select wordlist k)) k) (inlist (select wordlist k)) (wordok (select wordlist k)))) :pattern ((select wordlist k)))))
(assert (forall ((s Str)) (! (=> (inlist s) (and (<= 0 (widx s)) (< (widx s) 4096) (= (select wordlist (widx s)) s))) :pattern ((inlist s)))))
; the m-th 12-bit group of the nibble stream of bytes A[o..]: big-endian, first nibble most significant
(declare-fun val12 ((Array Int Int) Int Int) Int)
(assert (forall ((A (Array Int Int)) (o Int) (m Int))
  (! (= (val12 A o m)
        (ite (= (mod m 2) 0)
             (+ (* 16 (select A (+ o (div (* 3 m) 2)))) (div (select A (+ o (div (* 3 m) 2) 1)) 16))
             (+ (* 256 (mod (select A (+ o (div (- (* 3 m) 1) 2))) 16)) (select A (+ o (div (- (* 3 m) 1) 2) 1)))))
     :pattern ((val12 A o m)))))
(declare-fun mnemWords ((Array Int Int) Int) (Array Int Str))
;@ needs mnemWords
(assert (forall ((A (Array Int Int)) (o Int) (m Int)) (! (= (select (mnemWords A o) m) (select wordlist (val12 A o m))) :pattern ((select (mnemWords A o) m)))))
; decbyte(S, q): byte q of the decoding of phrase S (words 2u, 2u+1 give bytes 3u, 3u+1, 3u+2)
(declare-fun decbyte (Str Int) Int)
(assert (forall ((S Str) (q Int))
  (! (= (decbyte S q)
        (ite (= (mod q 3) 0) (div (widx (tok S (* 2 (div q 3)))) 16)
        (ite (= (mod q 3) 1) (+ (* 16 (mod (widx (tok S (* 2 (div q 3)))) 16)) (div (widx (tok S (+ (* 2 (div q 3)) 1))) 256))
             (mod (widx (tok S (+ (* 2 (div q 3)) 1))) 256))))
     :pattern ((decbyte S q)))))
