(set-option :produce-models true)
(set-logic ALL)
; obligation dilithium.ntt/loop[1]/inv[1]/init
; kind inv-init  at dilithium/ntt.go:8
(define-fun nttLenOK ((c Int)) Bool (or (= c 128) (= c 64) (= c 32) (= c 16) (= c 8) (= c 4) (= c 2) (= c 1) (= c 0)))
(define-fun nttK0 ((c Int)) Int (ite (= c 128) 0 (ite (= c 64) 1 (ite (= c 32) 3 (ite (= c 16) 7 (ite (= c 8) 15 (ite (= c 4) 31 (ite (= c 2) 63 (ite (= c 1) 127 255)))))))))
(declare-fun a^!1 () (Array Int Int))
(assert (forall ((q!2 Int)) (! (and (<= (- 2147483648) (select a^!1 q!2)) (<= (select a^!1 q!2) 2147483647)) :pattern ((select a^!1 q!2)))))
(assert (forall ((k_!3 Int)) (=> (and (<= 0 k_!3) (< k_!3 256)) (and (< (- 8380417) (select a^!1 k_!3)) (< (select a^!1 k_!3) 8380417)))))
(assert (not (and (nttLenOK 256) (= 0 (nttK0 256)))))
(check-sat)
(get-model)
