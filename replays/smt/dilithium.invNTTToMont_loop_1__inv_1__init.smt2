(set-option :produce-models true)
(set-logic ALL)
; obligation dilithium.invNTTToMont/loop[1]/inv[1]/init
; kind inv-init  at dilithium/ntt.go:27
(declare-fun a^!1 () (Array Int Int))
(assert (forall ((q!2 Int)) (! (and (<= (- 2147483648) (select a^!1 q!2)) (<= (select a^!1 q!2) 2147483647)) :pattern ((select a^!1 q!2)))))
(assert (forall ((k_!3 Int)) (=> (and (<= 0 k_!3) (< k_!3 256)) (and (< (- 8380417) (select a^!1 k_!3)) (< (select a^!1 k_!3) 8380417)))))
(assert (not false))
(check-sat)
(get-model)
