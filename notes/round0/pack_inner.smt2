(set-logic ALL)
(declare-const so (Array Int Int))   ; original trailer bytes
(declare-const out (Array Int Int))
(declare-const h (Array Int Int))
(declare-const k0 Int) (declare-const k1 Int) (declare-const k Int) (declare-const j Int)
(assert (forall ((x Int)) (and (<= 0 (select so x)) (< (select so x) 256))))
(assert (and (<= 0 k0) (<= k0 k1) (<= k1 75) (<= 0 j) (< j 256)))
(assert (forall ((p Int) (q Int)) (=> (and (<= k0 p) (< p q) (< q k1)) (< (select so p) (select so q)))))
(assert (forall ((m Int)) (=> (and (<= 0 m) (< m 256)) (or (= (select h m) 0) (= (select h m) 1)))))
(assert (forall ((m Int)) (=> (and (<= 0 m) (< m 256)) (= (= (select h m) 1) (exists ((p Int)) (and (<= k0 p) (< p k1) (= (select so p) m)))))))
; invariant at j
(assert (and (<= k0 k) (<= k k1)))
(assert (forall ((p Int)) (=> (and (<= k0 p) (< p k)) (and (= (select out p) (select so p)) (< (select so p) j)))))
(assert (=> (< k k1) (>= (select so k) j)))
; body
(define-fun taken () Bool (not (= (select h j) 0)))
(define-fun out2 () (Array Int Int) (ite taken (store out k j) out))
(define-fun kk () Int (ite taken (+ k 1) k))
(assert (not (and (<= k0 kk) (<= kk k1)
  (forall ((p Int)) (=> (and (<= k0 p) (< p kk)) (and (= (select out2 p) (select so p)) (< (select so p) (+ j 1)))))
  (=> (< kk k1) (>= (select so kk) (+ j 1)))
  (=> taken (< k 75)))))   ; store index in range
(check-sat)
