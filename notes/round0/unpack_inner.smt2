(set-logic ALL)
(declare-const sig (Array Int Int))
(declare-const h (Array Int Int))   ; row i of hints, before the store
(declare-const k Int) (declare-const j Int) (declare-const c Int) ; c = cnt(i)
(assert (forall ((x Int)) (and (<= 0 (select sig x)) (< (select sig x) 256))))
(assert (and (<= 0 k) (<= k j) (< j c) (<= c 75)))
; inner invariant at j
(assert (forall ((p Int) (q Int)) (=> (and (<= k p) (< p q) (< q j)) (< (select sig p) (select sig q)))))
(assert (forall ((m Int)) (=> (and (<= 0 m) (< m 256)) (or (= (select h m) 0) (= (select h m) 1)))))
(assert (forall ((m Int)) (=> (and (<= 0 m) (< m 256)) (= (= (select h m) 1) (exists ((p Int)) (and (<= k p) (< p j) (= (select sig p) m)))))))
; guard passed: not (j > k && sig[j] <= sig[j-1])
(assert (not (and (> j k) (<= (select sig j) (select sig (- j 1))))))
(define-fun h2 () (Array Int Int) (store h (select sig j) 1))
; goal: invariant at j+1
(assert (not (and
  (forall ((p Int) (q Int)) (=> (and (<= k p) (< p q) (< q (+ j 1))) (< (select sig p) (select sig q))))
  (forall ((m Int)) (=> (and (<= 0 m) (< m 256)) (or (= (select h2 m) 0) (= (select h2 m) 1))))
  (forall ((m Int)) (=> (and (<= 0 m) (< m 256)) (= (= (select h2 m) 1) (exists ((p Int)) (and (<= k p) (< p (+ j 1)) (= (select sig p) m))))))
)))
(check-sat)
